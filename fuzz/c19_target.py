#!/venv/bin/python
"""Atheris target for C19: message text / sqlstate attribute through sqlstate_classifier and
pyodbc_classifier (and the text as args[0] through all five classifiers), oracle inside the target."""
import os
import sys

ROOT = os.path.dirname(os.path.dirname(os.path.abspath(__file__)))
REPO = os.environ.get("VERIF_REPO", "/repo")
sys.path[:0] = [REPO + "/src", ROOT, ROOT + "/.deps"]

import atheris  # noqa: E402

from vf import bootstrap  # noqa: E402

bootstrap.install()
with atheris.instrument_imports(include=["redress"]):
    import redress  # noqa: F401,E402
from vf.props import c19  # noqa: E402

TYPES = ["dyn:DbError", "dyn:ConnectionTimeoutAuth", "builtin:RuntimeError", "marker:ServerError"]


def one_input(data: bytes) -> None:
    if len(data) < 2:
        return
    t = TYPES[data[0] % len(TYPES)]
    where = data[1] % 3
    text = data[2:].decode("utf-8", "surrogateescape")
    case = {"type": t}
    if where == 0:
        case["args"] = [text]
    elif where == 1:
        case["attrs"] = {"sqlstate": text}
    else:
        case["args"] = ["prefix", text]
        case["attrs"] = {"status": len(text)}
    v = c19.check_case(case)
    if v.violations:
        sig, msg = v.violations[0]
        raise AssertionError(f"C19-ORACLE:{sig.split(':', 1)[1]}: {msg[:300]}")


if __name__ == "__main__":
    if len(sys.argv) >= 3 and sys.argv[1] == "--replay":
        one_input(open(sys.argv[2], "rb").read())
        print("replay ok")
        sys.exit(0)
    atheris.Setup(sys.argv, one_input)
    atheris.Fuzz()
