#!/venv/bin/python
"""Atheris driving the structured Hypothesis generator of C20 (fuzz_one_input): libFuzzer mutates
the byte stream Hypothesis draws from, so the grammar-based generator gets coverage guidance."""
import os
import sys

ROOT = os.path.dirname(os.path.dirname(os.path.abspath(__file__)))
REPO = os.environ.get("VERIF_REPO", "/repo")
sys.path[:0] = [REPO + "/src", ROOT, ROOT + "/.deps"]

import atheris  # noqa: E402

from vf import bootstrap  # noqa: E402

bootstrap.install()
with atheris.instrument_imports(include=["redress", "email"]):
    import redress  # noqa: F401,E402
    import email.utils  # noqa: F401,E402
from hypothesis import given, settings  # noqa: E402

from vf.props import c20  # noqa: E402


@settings(database=None, deadline=None)
@given(c20.parse_case())
def prop(case):
    v = c20.check_parse(case)
    if v.violations:
        sig, msg = v.violations[0]
        raise AssertionError(f"C20-ORACLE:{sig.split(':', 1)[1]}: {msg}")


if __name__ == "__main__":
    atheris.Setup(sys.argv, prop.hypothesis.fuzz_one_input)
    atheris.Fuzz()
