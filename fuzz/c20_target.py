#!/venv/bin/python
"""Atheris target for C20: Retry-After header text through http_retry_after_classifier.

The semantic oracle (vf.props.c20.check_parse) runs inside the target; an oracle violation is
reported as an uncaught exception whose message starts with C20-ORACLE:<signature>:.
usage: c20_target.py [libFuzzer flags] <corpus dir>      |      c20_target.py --replay <file>
"""
import os
import sys

ROOT = os.path.dirname(os.path.dirname(os.path.abspath(__file__)))
REPO = os.environ.get("VERIF_REPO", "/repo")
sys.path[:0] = [REPO + "/src", ROOT, ROOT + "/.deps"]

import atheris  # noqa: E402

from vf import bootstrap  # noqa: E402

bootstrap.install()
with atheris.instrument_imports(include=["redress", "email"]):
    import redress  # noqa: F401,E402
    import email.utils  # noqa: F401,E402
from vf.props import c20  # noqa: E402

SHAPES = ["dict", "attr", "pairs", "get_only", "response"]


def one_input(data: bytes) -> None:
    if not data:
        return
    shape = SHAPES[data[0] % len(SHAPES)]
    text = data[1:].decode("utf-8", "surrogateescape")
    case = {"shape": shape, "key": "Retry-After", "value": text}
    v = c20.check_parse(case)
    if v.violations:
        sig, msg = v.violations[0]
        raise AssertionError(f"C20-ORACLE:{sig.split(':', 1)[1]}: {msg}")


if __name__ == "__main__":
    if len(sys.argv) >= 3 and sys.argv[1] == "--replay":
        one_input(open(sys.argv[2], "rb").read())
        print("replay ok")
        sys.exit(0)
    atheris.Setup(sys.argv, one_input)
    atheris.Fuzz()
