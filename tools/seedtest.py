#!/venv/bin/python
"""Confirm a seeded change and run checks against it.

usage: tools/seedtest.py <seed dir containing patch.diff demo.py meta.json> <name> [prop ...| --all]

Steps (all in /repo's working tree, reverted afterwards):
  1. demo passes on the clean tree; 2. patch applies; 3. repo test suite passes with it;
  4. demo fails with it; 5. run the named checks (quick tier) and record which report a VIOLATION.
Then copies the seed to /verif/seeded/<name>/ with an updated meta.json.
"""
import json
import shutil
import subprocess
import sys
import time
from pathlib import Path

argv = sys.argv[1:]
base = None
if argv[0] == "--base":
    base = argv[1]
    argv = argv[2:]
src = Path(argv[0])
name = argv[1]
props = argv[2:]
import os
ROOT = Path(__file__).resolve().parent.parent
REPO = os.environ.get("SEED_REPO", "/repo")  # a scratch clone may be used while /repo is busy
PYP = f"PYTHONPATH={REPO}/src "
ALL = [json.loads(l)["id"] for l in (ROOT / "properties.jsonl").read_text().splitlines() if l.strip()]
have = {c["property_id"] for c in json.loads((ROOT / "MANIFEST.json").read_text())["checks"]}
if props == ["--all"]:
    props = [p for p in ALL if p in have]


def sh(cmd, **kw):
    return subprocess.run(cmd, shell=True, capture_output=True, text=True, **kw)


def demo():
    r = sh(f"cd {REPO} && {PYP}/venv/bin/python {src}/demo.py")
    return r.returncode, (r.stdout + r.stderr).strip().splitlines()[-3:]


assert sh(f"git -C {REPO} status --porcelain").stdout.strip() == "", "repo not clean"
meta = json.loads((src / "meta.json").read_text())
base = base or meta.get("base")
res = {"ran": time.strftime("%Y-%m-%d %H:%M:%S")}
if base:
    # the change was written against an earlier commit of /repo (a later fix touches the same lines)
    sh(f"git -C {REPO} checkout {base} -- src")
    res["base"] = base
    meta["base"] = base
rc, out = demo()
res["demo_clean"] = {"exit": rc, "tail": out}
ap = sh(f"git -C {REPO} apply {src}/patch.diff")
if ap.returncode != 0:
    print("PATCH DOES NOT APPLY", ap.stderr)
    sh(f"git -C {REPO} checkout HEAD -- src")
    sys.exit(3)
try:
    t = sh(f"cd {REPO} && {PYP}/venv/bin/python -m pytest -q -p no:cacheprovider --no-cov 2>&1 | tail -1")
    res["tests_with_patch"] = t.stdout.strip()
    rc, out = demo()
    res["demo_patched"] = {"exit": rc, "tail": out}
    res["checks"] = {}
    for p in props:
        t0 = time.time()
        r = sh(f"cd {ROOT} && VERIF_REPO={REPO} ./check {p} --tier quick")
        sigs = [l.strip() for l in r.stdout.splitlines() if l.startswith("  C")]
        res["checks"][p] = {"exit": r.returncode, "wall_s": round(time.time() - t0, 1), "signatures": [s.split(": ", 1)[0] for s in sigs][:8], "first": (sigs[0][:400] if sigs else "")}
        print(f"  [{p}] exit={r.returncode} {res['checks'][p]['signatures'][:3]}")
        if r.returncode == 2:
            print(r.stderr[-800:])
finally:
    sh(f"git -C {REPO} checkout HEAD -- src && git -C {REPO} checkout -- . && git -C {REPO} clean -fdq src")
    sh(f"rm -rf {ROOT}/replays/*/found")
    # evidence files were rewritten by runs against the mutant: restore the committed ones
    sh(f"cd {ROOT} && git checkout -- evidence 2>/dev/null")
assert sh(f"git -C {REPO} status --porcelain").stdout.strip() == "", "repo not clean after revert"
ok = res["demo_clean"]["exit"] == 0 and res["demo_patched"]["exit"] != 0 and res["tests_with_patch"].startswith("225 passed")
res["confirmed"] = ok
caught = [p for p, c in res["checks"].items() if c["exit"] == 1]
res["caught_by"] = caught
print(f"{name}: confirmed={ok} tests='{res['tests_with_patch']}' demo clean={res['demo_clean']['exit']} patched={res['demo_patched']['exit']} caught_by={caught}")
dst = ROOT / "seeded" / name
if ok:
    dst.mkdir(parents=True, exist_ok=True)
    if src.resolve() != dst.resolve():
        shutil.copy(src / "patch.diff", dst / "patch.diff")
        shutil.copy(src / "demo.py", dst / "demo.py")
    prev = meta.get("verification") or {}
    merged = dict(prev.get("checks") or {})
    merged.update(res["checks"])
    res["checks"] = merged
    res["caught_by"] = sorted(p for p, c in merged.items() if c["exit"] == 1)
    meta["verification"] = res
    (dst / "meta.json").write_text(json.dumps(meta, indent=1) + "\n")
