#!/venv/bin/python
"""Sensitivity helper: apply a textual mutation to /repo, run checks, revert.

usage: tools/trymut.py [--tests] <file under src/redress> <old> <new> <prop> [<prop> ...]
"""
import subprocess
import sys
from pathlib import Path

args = sys.argv[1:]
run_tests = False
if args[0] == "--tests":
    run_tests = True
    args = args[1:]
rel, old, new, *props = args
p = Path("/repo/src/redress") / rel
src = p.read_text()
if src.count(old) < 1:
    sys.exit(f"pattern not found in {p}")
p.write_text(src.replace(old, new, 1))
try:
    if run_tests:
        r = subprocess.run("cd /repo && /venv/bin/python -m pytest -q -p no:cacheprovider --no-cov -x 2>&1 | tail -2", shell=True, capture_output=True, text=True)
        print("TESTS:", r.stdout.strip().splitlines()[-1])
    for prop in props:
        r = subprocess.run(["/verif/check", prop, "--tier", "quick"], capture_output=True, text=True, cwd="/verif")
        lines = [l for l in r.stdout.splitlines() if l.startswith(("VIOLATION", "  C")) or "tier=" in l]
        print(f"[{prop}] exit={r.returncode}")
        for l in lines[:6]:
            print("   ", l[:300])
        if r.returncode == 2:
            print(r.stderr[-1500:])
finally:
    p.write_text(src)
    subprocess.run("rm -rf /verif/replays/*/found", shell=True)
    subprocess.run(["git", "-C", "/repo", "status", "--short"])
