#!/bin/sh
# run every registered quick (or $1=thorough) check; print one line each
cd "$(dirname "$0")/.." || exit 2
TIER=${1:-quick}
rc=0
for id in $(/venv/bin/python -c "import json;print(' '.join(c['property_id'] for c in json.load(open('MANIFEST.json'))['checks']))"); do
  out=$(./check $id --tier $TIER 2>&1); e=$?
  echo "$out" | grep -E "^(VIOLATION|KNOWN-FINDING|HARNESS)" | head -5
  echo "$out" | tail -1 | sed "s/^/[exit=$e] /"
  [ $e -ne 0 ] && rc=1
done
exit $rc
