#!/venv/bin/python
"""Re-test every stored seeded change against the current tree and regenerate DESIGN.md §10's table.

usage: tools/seedsweep.py [--table-only] [name ...]
"""
import json
import subprocess
import sys
from pathlib import Path

ROOT = Path("/verif")
args = sys.argv[1:]
table_only = "--table-only" in args
names = [a for a in args if not a.startswith("--")]
seeds = sorted(p for p in (ROOT / "seeded").iterdir() if (p / "meta.json").exists())
if not table_only:
    for d in seeds:
        if names and d.name not in names:
            continue
        meta = json.loads((d / "meta.json").read_text())
        target = meta.get("property") or d.name.split("-")[0]
        prev = (meta.get("verification") or {}).get("caught_by") or []
        props = sorted({target, *prev})
        r = subprocess.run([str(ROOT / "tools" / "seedtest.py"), str(d), d.name, *props], capture_output=True, text=True)
        print(r.stdout.strip().splitlines()[-1] if r.stdout.strip() else r.stderr[-300:])

rows = []
for d in seeds:
    meta = json.loads((d / "meta.json").read_text())
    v = meta.get("verification") or {}
    target = meta.get("property") or d.name.split("-")[0]
    checks = v.get("checks") or {}
    caught = [p for p, c in sorted(checks.items()) if c["exit"] == 1]
    missed = [p for p, c in sorted(checks.items()) if c["exit"] == 0]
    sig = (checks.get(target) or {}).get("signatures") or []
    rows.append(
        "| {n} | {t} | {s} | {needs} | {c} | {sig} |".format(
            n=d.name,
            t=target,
            s=(meta.get("summary") or "").replace("|", "/").replace("\n", " ")[:230],
            needs=(meta.get("needs") or "").replace("|", "/").replace("\n", " ")[:200],
            c=", ".join(f"**{p}**" if p == target else p for p in caught) or "—",
            sig=(sig[0] if sig else ("target check silent" if target in missed else "")),
        )
    )
table = "\n".join(
    [
        "| seed | property | change (author's summary) | needs | caught by (quick tier; target in bold) | first signature of the target check |",
        "|------|----------|---------------------------|-------|----------------------------------------|--------------------------------------|",
        *rows,
    ]
)
p = ROOT / "DESIGN.md"
s = p.read_text()
a = s.index("<!-- SEEDTABLE:BEGIN -->") + len("<!-- SEEDTABLE:BEGIN -->")
b = s.index("<!-- SEEDTABLE:END -->")
p.write_text(s[:a] + "\n" + table + "\n" + s[b:])
n_t = sum(1 for d in seeds if (json.loads((d / "meta.json").read_text()).get("verification") or {}).get("checks", {}).get(json.loads((d / "meta.json").read_text()).get("property", d.name.split("-")[0]), {}).get("exit") == 1)
print(f"{len(seeds)} seeds, {n_t} caught by their target check")
