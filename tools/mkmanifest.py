#!/venv/bin/python
"""Regenerate MANIFEST.json from the table below (python tools/mkmanifest.py)."""
import json
import sys
from pathlib import Path

ROOT = Path(__file__).resolve().parent.parent
sys.path.insert(0, str(ROOT))

CHECKS = {
    # id: (category, technique, level text, level note, design ref)
    "C18": (
        "exploration",
        "Hypothesis property tests with generated random draws + exhaustive attempt sweep; exact-rational envelope oracle",
        "Generated-input search over strategy parameters, attempt numbers up to 1e6 and the random draw itself, against an "
        "envelope oracle computed in exact rational arithmetic; attempt numbers 1..N swept exhaustively for fixed parameter "
        "pairs; adaptive() driven by generated histories with boundary ages. Finds counterexamples, does not prove absence.",
        "random draws are assumed to reach the strategies through random.uniform/random.random; 1e-12 relative slack on the envelope",
        "DESIGN.md §3 C18",
    ),
}

PENDING_REASON = "check not built yet in this snapshot (work in progress; see DESIGN.md §3 for the planned generated-input check)"


def main() -> None:
    props = [json.loads(l) for l in (ROOT / "properties.jsonl").read_text().splitlines() if l.strip()]
    checks = []
    na = []
    for p in props:
        pid = p["id"]
        if pid in CHECKS:
            cat, tech, text, note, ref = CHECKS[pid]
            checks.append(
                {
                    "property_id": pid,
                    "quick_cmd": f"./check {pid} --tier quick",
                    "thorough_cmd": f"./check {pid} --tier thorough",
                    "evidence_file": f"evidence/{pid}.json",
                    "replay_cmd_template": f"./check {pid} --replay {{path}}",
                    "engine": "vf",
                    "level_claimed": {"category": cat, "text": text, "design_ref": ref},
                    "level_note": note,
                    "technique": tech,
                }
            )
        else:
            na.append({"property_id": pid, "reason": PENDING_REASON})
    manifest = {
        "version": 1,
        "setup_cmd": "./setup.sh",
        "hooks": {
            "guard": "REDRESS_VERIF",
            "enable": "none needed: all observation is through public callbacks and a dispatcher installed before `import redress` (vf/bootstrap.py); the checks export REDRESS_VERIF=1 for form",
            "baseline_off_cmd": "cd /repo && /venv/bin/python -m pytest -ra -q -p no:cacheprovider --timeout=900 --continue-on-collection-errors",
            "source_commits": [],
            "add_only": True,
        },
        "engines": [
            {
                "name": "vf",
                "path": "vf/",
                "serves_properties": sorted(CHECKS),
                "kind_free_text": "Hypothesis-driven generated-input search (virtual-time trace harness, reference models, coroutine stepper, owned thread scheduler, finite enumerations, Atheris targets) sharded over 16 processes",
            }
        ],
        "checks": checks,
        "notes": "Every check: exit 0 held / 1 VIOLATION line / 2 harness error. VERIF_SEED and VERIF_TIER are honoured. Known findings: KNOWN_FINDINGS.txt.",
        "not_applicable": na,
    }
    (ROOT / "MANIFEST.json").write_text(json.dumps(manifest, indent=1) + "\n")
    try:
        import jsonschema

        jsonschema.validate(manifest, json.loads(Path("/root/.vp/MANIFEST.schema.json").read_text()))
        print("MANIFEST.json valid;", len(checks), "checks,", len(na), "not_applicable")
    except ImportError:
        print("MANIFEST.json written (jsonschema not importable)")


if __name__ == "__main__":
    main()
