#!/venv/bin/python
"""Regenerate MANIFEST.json from the table below (python tools/mkmanifest.py)."""
import json
import sys
from pathlib import Path

ROOT = Path(__file__).resolve().parent.parent
sys.path.insert(0, str(ROOT))

CHECKS = {
    # id: (category, technique, level text, level note, design ref)
    "C18": (
        "exploration",
        "Hypothesis property tests with generated random draws + exhaustive attempt sweep; exact-rational envelope oracle",
        "Generated-input search over strategy parameters, attempt numbers up to 1e6 and the random draw itself, against an "
        "envelope oracle computed in exact rational arithmetic; attempt numbers 1..N swept exhaustively for fixed parameter "
        "pairs; adaptive() driven by generated histories with boundary ages, and shared by two threads under the owned "
        "scheduler. Finds counterexamples, does not prove absence.",
        "random draws are assumed to reach the strategies through random.uniform/random.random; 1e-12 relative slack on the envelope",
        "DESIGN.md §3 C18",
    ),
}

def _std(cat, tech, text, note, ref):
    return (cat, tech, text, note, ref)


E1_NOTE = ("time advances only inside the scripted operation and the sleeper (virtual monotonic clock installed before "
           "`import redress`); timings on the exact k/64 s grid; attempt_timeout_s is not exercised")
CHECKS.update({
    "C01": _std("exploration", "Hypothesis-generated cases + exhaustive small-scope enumeration; counting invariants and fresh-object differential on the trace",
        "Generated (config x outcome script x call sequence x 26 entry points incl. from_config, context managers, @retry) plus complete enumeration of all outcome scripts over a 9-letter alphabet up to length 3 (quick) / 4 (thorough) with every small cap combination; long runs (33..130 attempts, caps around 32/64); calls overlapping on one thread (nested in the operation, interleaved coroutines); attribute edits between calls. Counting invariants need no model; reused-object, overlapping-call and reconfiguration checks are differentials against a fresh object.",
        E1_NOTE, "DESIGN.md §3 C01"),
    "C02": _std("exploration", "Hypothesis-generated timings on an exact dyadic grid + off-grid float stream; timing inequalities and wall-clock-jump metamorphic relation",
        "Generated deadlines, attempt durations, sleeper overshoots and early returns (placed at deadline +/- 2 ticks on purpose), time spent inside the classifier, strategy outputs and wall-clock jump patterns; oracle is a set of inequalities on the virtual monotonic clock compared exactly, plus trace equality with/without jumps, plus a fresh-object differential after the caller assigns a new deadline between calls.",
        E1_NOTE + "; off-grid stream uses a 2 us tolerance", "DESIGN.md §3 C02"),
    "C03": _std("exploration", "Hypothesis-generated cases checked against a spec-level reference model (set of stop conditions that hold at each failure)",
        "Model-based: an independent model computes at every failed attempt which stop conditions hold and whether the budget refuses; the trace must retry exactly when none holds, spend exactly one token, and report a reason that holds.",
        E1_NOTE, "DESIGN.md §3 C03"),
    "C04": _std("exploration", "Hypothesis-generated mixed exception/result histories; object-identity and traceback oracle over all call-mode entry points",
        "Generated histories through 12 call-mode entry points (incl. context managers and @retry); oracle compares object identity of what call() delivers with the object the last attempt produced, and RetryExhaustedError fields with the trace.",
        E1_NOTE, "DESIGN.md §3 C04"),
    "C05": _std("exploration", "Hypothesis-generated strategy tables and hostile return values; data-flow equalities across strategy context, sleeper, hooks, events",
        "Generated strategy tables/signatures/return values (NaN, inf, negative, huge, above remaining); oracle recomputes the applied delay from the property statement and follows it through every observer.",
        E1_NOTE, "DESIGN.md §3 C05"),
    "C11": _std("exploration", "Hypothesis-generated cases through every execute entry point; RetryOutcome-vs-trace oracle",
        "Generated configs/scripts/abort points/handler decisions through 12 execute entry points (incl. breaker and no-retry policies); every RetryOutcome field is checked against the trace; only documented exception kinds may escape. A second stream uses the real clock with attempt timeouts that really fire (timing-independent oracle: attempts == invocations).",
        E1_NOTE + "; ABORTED outcomes are allowed to describe the last failure the loop recorded (abort_if is polled before a failure is recorded)", "DESIGN.md §3 C11"),
    "C13": _std("fault_enumeration", "Generated + exhaustively enumerated first-True poll index and cancellation points; poll-placement grammar oracle",
        "abort_if turning True at every poll index of fixed runs (enumerated) and of generated runs; AbortRetryError / KeyboardInterrupt / SystemExit / CancelledError raised by the operation at attempt k; oracle: poll before every attempt and sleep, nothing after True, same exception object out, never classified. The poll before a sleep must come after the retry decision was announced (retry event), so a flag raised by the hook that sees it stops the sleep.",
        E1_NOTE + "; cancellation at await points and inside sleeps is covered by the C08 stepper", "DESIGN.md §3 C13"),
    "C14": _std("exploration", "Hypothesis-generated runs; event-grammar oracle (retry* terminal) with three-sink parity",
        "Generated runs with metric/log/both sinks and timeline capture; oracle is the grammar retry(attempt=i)* terminal, tag/stop-reason agreement with what is delivered, and metric/log/timeline parity, also while the metric or log hook raises on some or all events.",
        E1_NOTE, "DESIGN.md §3 C14"),
    "C16": _std("exploration", "Hypothesis-generated handler decision sequences x callback placements + exhaustive placement product; protocol-grammar oracle",
        "Generated decision sequences and callback placements through 20 entry points plus the complete product of placements x decision sequences x callback flavours; oracle is the per-retry protocol (consult once, before_sleep, sleep once, next attempt / SCHEDULED / ABORTED) and call-over-policy precedence.",
        E1_NOTE, "DESIGN.md §3 C16"),
    "C08": _std("fault_enumeration", "Hypothesis-selected cases x exhaustive enumeration of crash points (raising callback at every invocation, exception thrown into / close() of the coroutine at every suspension point); admission-after-timeout oracle",
        "For every generated case all crash points are enumerated (not sampled): each callback invocation raising ordinary/KeyboardInterrupt/SystemExit/CancelledError, and for async entries each exception type thrown into (or close() of) the coroutine at each await point; oracle uses public behaviour only: after the call ends and recovery_timeout_s elapses the next allow() must be admitted.",
        E1_NOTE + "; async entry points are driven without an event loop (coro.send/throw/close), suspension points are the operation's awaits and the sleeps", "DESIGN.md §3 C08"),
    "C09": _std("exploration", "Hypothesis-generated call sequences sharing one real breaker behind a spy; exactly-one-record oracle by final outcome",
        "Generated sequences of 1-4 calls through 10 Policy entry points sharing a breaker that starts closed/open/half-open-ready; every admitted call must make exactly one record of the kind/class its final outcome implies, rejected calls none; a second stream makes one of the caller's callbacks (attempt hooks, classifier, strategy, sleep handler, sleeper, abort_if, before_sleep, metric/log hook) raise an ordinary exception / KeyboardInterrupt / SystemExit / CancelledError at its j-th invocation and still requires exactly one record per admitted call.",
        E1_NOTE + "; a nested CircuitOpenError as the final failure only needs exactly one record (tests pin that it is not counted)", "DESIGN.md §3 C09"),
    "C12": _std("exploration", "Differential testing: one generated case through 28 entry points, pairwise trace equality after call/execute normalisation",
        "Differential oracle: the same generated case is executed through every entry point (Retry/Policy/RetryPolicy, from_config, context managers, @retry; call/execute; sync/async; plus breaker and no-retry groups) and the complete observable traces must be equal.",
        E1_NOTE + "; classifier invocations are excluded from the comparison; attempt hooks are compared only among entry points that deliver the result the same way (call with call, execute with execute; see DESIGN.md observations)", "DESIGN.md §3 C12"),
    "C15": _std("fault_enumeration", "Hypothesis-selected cases x exhaustive enumeration of (hook, invocation index | always) x rotating exception types; trace-equality metamorphic oracle",
        "For every generated case each hook invocation is faulted in turn (and 'always'), with exception types rotating over 9 Exception subclasses; the observable trace must equal the silent-hook trace, including the other sink, the timeline, breaker and budget calls. Callers with both hooks, only one of them, and with or without an operation name.",
        E1_NOTE, "DESIGN.md §3 C15"),
    "C06": _std("exploration", "Model-based history generation (Hypothesis) + exhaustive short histories against an independent reference breaker model",
        "Generated breaker configurations (incl. the caller's trip_on set shared with another breaker and edited afterwards, thresholds up to 100) and operation histories with bursts and symbolic boundary advances (failure aged to exactly window_s overall / per class, recovery boundary); after every operation return value and state must equal an independent model; all histories up to length 5/6 over an 8-letter alphabet are enumerated for 3 configurations.",
        "the breaker reads time through time.monotonic (default clock) routed to a virtual clock; times on the exact k/64 s grid", "DESIGN.md §3 C06"),
    "C07": _std("exploration", "Model-based histories at component and policy level + generated interleavings of stepped coroutines (harness-owned schedule)",
        "Three streams: component histories vs reference model; sequences of policy calls through mixed entry points sharing a real breaker with direct operations and exact-timeout clock advances; 2-4 AsyncPolicy calls stepped under generated interleavings with the invariant 'at most one admitted probe outstanding' and 'a call never admitted does not record'. A quarter of the interleaved calls carry a metric hook that raises KeyboardInterrupt/SystemExit/CancelledError when told of the rejection.",
        "straggler records are not flagged (the breaker API has no call identity); schedules are generated, not exhaustive", "DESIGN.md §3 C07"),
    "C10": _std("exploration", "Model-based history generation + exhaustive short histories for Budget; generated multi-policy runs sharing one budget vs window model",
        "Generated consume/remaining/advance histories (sizes 0..5 and 64..130, bulk costs, run-time changes of max_retries) with boundary ages against an independent window model plus the sliding-window bound; all histories up to length 6/7 enumerated for 4 configurations; 2-3 policies (sync and async) sharing a pre-aged budget, every consume result and every retry/budget_exhausted event checked against the model.",
        "Budget reads time.monotonic through the dispatcher; times on the exact k/64 s grid", "DESIGN.md §3 C10"),
    "C19": _std("exploration", "Hypothesis-generated hostile exception objects + exhaustive integer and SQLSTATE ranges against an independent table/precedence model; metamorphic renaming for strict",
        "Generated exception types/attribute values/args (directed so that the attribute each classifier reads is present) checked for totality and against a table model written from the docstrings; every int in [-50,1100] in every position and every 5-char SQLSTATE over a 10-letter alphabet are enumerated; optional-library classifiers compared with default_classifier with their library made unimportable.",
        "the model leaves inputs the documentation does not pin (bools as codes, http 422, non-string sqlstate, non-ASCII message text) unchecked beyond totality; marker-over-code precedence asserted for default/strict only", "DESIGN.md §3 C19"),
    "C20": _std("exploration", "Grammar-based Hypothesis generation + exhaustive digit-length sweep + Atheris (libFuzzer, coverage-guided) campaigns with the semantic oracle in the target; end-to-end policy runs on a virtual clock",
        "Generated Retry-After values (digit strings of any length, signs, whitespace, dates in five formats, garbage, non-strings) in 11 container shapes; every digit-string length up to 600/5000 enumerated; coverage-guided byte-level fuzzing of the header text from seeded and empty corpora with the same oracle; policies using http_retry_after_classifier + retry_after_or checked for min(rem,n) <= wait <= min(rem,n+jitter). The end-to-end runs also mix the 429s with failures of other classes under per-class strategies (retry_after_or registered for RATE_LIMIT only).",
        "what is a date is delegated to email.utils.parsedate_to_datetime; date hints are bracketed by real clock readings; Atheris campaigns are pinned only approximately by -seed/-runs (the saved input is the reproducible unit)", "DESIGN.md §3 C20"),
    "C17": _std("exploration", "Harness-owned thread scheduler: full depth-first enumeration of all schedules for 2-thread programs, pre-emption-bounded enumeration for generated larger programs; linearizability oracle",
        "The schedule is a generated/enumerated input: real threads run one at a time with every source line of circuit.py/budget.py as a pre-emption point and a cooperative lock. All schedules of every 2-thread/1-operation program from every initial state (two breaker configurations, one budget) are enumerated completely; Hypothesis-generated 2-3 thread programs are explored under all schedules with <= 2/3 pre-emptions. Each outcome must equal one produced by some sequential order; no deadlock. A third stream lets the clock advance between the threads' clock reads and checks the no-over-grant safety bound.",
        "source-line pre-emption granularity (C-level calls atomic); constant clock during the concurrent episode; 2-3 threads (plain, or running an asyncio event loop), 1-3 operations each", "DESIGN.md §3 C17"),
})

PENDING_REASON = "check not built yet in this snapshot (work in progress; see DESIGN.md §3 for the planned generated-input check)"


def main() -> None:
    props = [json.loads(l) for l in (ROOT / "properties.jsonl").read_text().splitlines() if l.strip()]
    checks = []
    na = []
    for p in props:
        pid = p["id"]
        if pid in CHECKS:
            cat, tech, text, note, ref = CHECKS[pid]
            checks.append(
                {
                    "property_id": pid,
                    "quick_cmd": f"./check {pid} --tier quick",
                    "thorough_cmd": f"./check {pid} --tier thorough",
                    "evidence_file": f"evidence/{pid}.json",
                    "replay_cmd_template": f"./check {pid} --replay {{path}}",
                    "engine": "vf",
                    "level_claimed": {"category": cat, "text": text, "design_ref": ref},
                    "level_note": note,
                    "technique": tech,
                }
            )
        else:
            na.append({"property_id": pid, "reason": PENDING_REASON})
    manifest = {
        "version": 1,
        "setup_cmd": "./setup.sh",
        "hooks": {
            "guard": "REDRESS_VERIF",
            "enable": "none needed: all observation is through public callbacks and a dispatcher installed before `import redress` (vf/bootstrap.py); the checks export REDRESS_VERIF=1 for form",
            "baseline_off_cmd": "cd /repo && /venv/bin/python -m pytest -ra -q -p no:cacheprovider --timeout=900 --continue-on-collection-errors",
            "source_commits": [],
            "add_only": True,
        },
        "engines": [
            {
                "name": "vf",
                "path": "vf/",
                "serves_properties": sorted(CHECKS),
                "kind_free_text": "Hypothesis-driven generated-input search (virtual-time trace harness, reference models, coroutine stepper, owned thread scheduler, finite enumerations, Atheris targets) sharded over 16 processes",
            }
        ],
        "checks": checks,
        "notes": "Every check: exit 0 held / 1 VIOLATION line / 2 harness error. VERIF_SEED and VERIF_TIER are honoured. Known findings: KNOWN_FINDINGS.txt.",
        "not_applicable": na,
    }
    (ROOT / "MANIFEST.json").write_text(json.dumps(manifest, indent=1) + "\n")
    try:
        import jsonschema

        jsonschema.validate(manifest, json.loads(Path("/root/.vp/MANIFEST.schema.json").read_text()))
        print("MANIFEST.json valid;", len(checks), "checks,", len(na), "not_applicable")
    except ImportError:
        print("MANIFEST.json written (jsonschema not importable)")


if __name__ == "__main__":
    main()
