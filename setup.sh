#!/bin/sh
# Offline setup: third-party tooling goes into ./.deps (git-ignored); nothing is fetched.
set -e
cd "$(dirname "$0")"
if [ ! -f .deps/.ok ]; then
  rm -rf .deps
  /venv/bin/pip install --quiet --no-index --find-links /opt/veriftools/wheels --target .deps \
      hypothesis atheris jsonschema
  touch .deps/.ok
fi
PYTHONPATH=.deps /venv/bin/python -c "import hypothesis, atheris, jsonschema; print('deps ok', hypothesis.__version__)"
