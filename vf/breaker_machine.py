"""Component-level history machine for CircuitBreaker (shared by C06 and C07)."""
from __future__ import annotations

from hypothesis import strategies as st

from . import bootstrap

bootstrap.install()

from redress import CircuitBreaker, ErrorClass  # noqa: E402

from . import gen  # noqa: E402
from .harness import VClock, g  # noqa: E402
from .models import BreakerModel  # noqa: E402

CLASSES = gen.ALL


@st.composite
def breaker_cfg(draw):
    spec = {
        "threshold": draw(st.sampled_from([1, 1, 2, 2, 3, 4])),
        "window": draw(st.sampled_from([4, 16, 64, 256])),
        "recovery": draw(st.sampled_from([4, 16, 64, 256])),
    }
    t = draw(st.sampled_from(["default", "default", "subset", "empty", "all"]))
    if t == "subset":
        spec["trip_on"] = draw(st.lists(st.sampled_from(CLASSES), min_size=1, max_size=3, unique=True))
    elif t == "empty":
        spec["trip_on"] = []
    elif t == "all":
        spec["trip_on"] = list(CLASSES)
    if gen.chance(draw, 0.25, "bm-alias"):
        spec["alias"] = draw(st.sampled_from(["RATE_LIMIT", "UNKNOWN", "PERMANENT", "TRANSIENT"]))
        spec["alias_reset"] = draw(st.booleans())
        spec["alias_clear"] = draw(st.booleans())
    if gen.chance(draw, 0.08, "bm-big"):
        spec["threshold"] = draw(st.sampled_from([63, 64, 65, 66, 100]))
        spec["window"] = 256
    if gen.chance(draw, 0.1, "bm-default-window"):
        # window_s left to its documented default (60 s) next to long recovery timeouts; failures age across it
        del spec["window"]
        spec["recovery"] = draw(st.sampled_from([64 * 30, 64 * 45, 64 * 120]))
        spec["threshold"] = draw(st.sampled_from([2, 2, 3]))
    if gen.chance(draw, 0.5, "bm-ct"):
        spec["class_thresholds"] = draw(st.dictionaries(st.sampled_from(CLASSES), st.sampled_from([1, 2, 2, 3]), min_size=1, max_size=2))
    return spec


def op_st(counted: list):
    """Operations; failure classes are mostly drawn from the classes this configuration counts."""
    counted = counted or ["TRANSIENT"]
    return st.one_of(
        st.tuples(st.just("allow")),
        st.tuples(st.just("allow")),
        st.tuples(st.just("succ")),
        st.tuples(st.just("fail"), st.sampled_from(counted)),
        st.tuples(st.just("fail"), st.sampled_from(counted)),
        st.tuples(st.just("fail"), st.sampled_from(counted)),
        st.tuples(st.just("fail"), st.sampled_from(CLASSES)),
        st.tuples(st.just("cancel")),
        st.tuples(st.just("state")),
        st.tuples(st.just("fail_n"), st.sampled_from(counted), st.sampled_from([10, 62, 63, 64, 65])),  # a burst of failures
        st.tuples(st.just("adv"), st.sampled_from([1, 1, 2, 4, 16, 64])),
        st.tuples(st.just("adv_rec"), st.sampled_from([-1, 0, 0, 1])),  # to recovery boundary (+/- 1 tick)
        st.tuples(st.just("adv_win"), st.sampled_from([-1, 0, 0, 1])),  # oldest live failure ages to window (+/- 1)
        st.tuples(st.just("adv_fine"), st.sampled_from([1, 2, 1000, 2**18, 2**20])),  # units of 2**-30 s (~0.93 ns)
        st.tuples(st.just("adv_rec_f"), st.sampled_from([-1, 1, -(2**18), 2**18, -(2**20), -500, 500])),  # recovery boundary +/- ns .. ms
        st.tuples(st.just("adv_win_f"), st.sampled_from([-1, 1, -(2**18), 2**18, -500, 500])),  # oldest live failure ages to window +/- ns .. ms
        st.tuples(st.just("adv_win_class"), st.sampled_from(counted), st.sampled_from([-1, 0, 0, 1])),  # oldest live failure of that class
    )


def counted_classes(spec: dict) -> list:
    trip = spec.get("trip_on")
    base = ["TRANSIENT", "SERVER_ERROR"] if trip is None else list(trip)
    return sorted(set(base) | set(spec.get("class_thresholds") or {}))


@st.composite
def history_case(draw, max_ops: int = 60):
    spec = draw(breaker_cfg())
    ops = draw(st.lists(op_st(counted_classes(spec)), min_size=1, max_size=max_ops))
    return {"breaker": spec, "ops": [list(o) for o in ops]}


def make_real(spec: dict) -> CircuitBreaker:
    kw: dict = dict(failure_threshold=spec["threshold"], recovery_timeout_s=g(spec["recovery"]))
    if "window" in spec:
        kw["window_s"] = g(spec["window"])  # else: the documented default of 60 s
    shared = None
    if spec.get("trip_on") is not None:
        shared = {ErrorClass[k] for k in spec["trip_on"]}
        kw["trip_on"] = shared
    cts = None
    if spec.get("class_thresholds"):
        cts = {ErrorClass[k]: v for k, v in spec["class_thresholds"].items()}
        kw["class_thresholds"] = cts
    alias = spec.get("alias")
    if alias and shared is not None:
        # the caller's own set object is also used for another breaker that has a class threshold ...
        CircuitBreaker(failure_threshold=1, window_s=1.0, recovery_timeout_s=1.0, trip_on=shared, class_thresholds={ErrorClass[alias]: 1})
        if spec.get("alias_reset"):
            shared.discard(ErrorClass[alias]) if alias not in spec["trip_on"] else None
    b = CircuitBreaker(**kw)
    if alias:
        # ... and is edited by the caller afterwards; neither may influence this breaker's configuration
        if shared is not None:
            shared.add(ErrorClass[alias])
            if spec.get("alias_clear"):
                shared.clear()
        if cts is not None:
            cts[ErrorClass[alias]] = 1
    return b


def run_history(case: dict):
    """Returns (violations [(prop, sig, msg)], info)."""
    spec = case["breaker"]
    clock = VClock(None)
    out: list = []
    info = {"opens": 0, "open_after_advance": False, "boundary_age": False, "cycle": False, "half_open": False, "probe_rejections": 0, "closed_again": 0}
    bootstrap.set_clock(clock)
    FINE = 2**24  # model time unit: 2**-30 s; one 1/64 s tick = 2**24 units (all arithmetic stays exact in doubles)

    def now_fine() -> int:
        return round((clock.t - clock.t0) * 2**30)

    def goto(target: int) -> None:
        clock.t = clock.t0 + target / 2**30

    try:
        real = make_real(spec)
        m = BreakerModel({**spec, "window": spec.get("window", 64 * 60) * FINE, "recovery": spec.get("recovery", 64 * 30) * FINE})
        adv_since_fail = False
        seen_states = []
        for i, op in enumerate(case["ops"]):
            t = now_fine()
            kind = op[0]
            before = m.state
            if kind == "adv":
                clock.t += g(op[1])
                adv_since_fail = True
                continue
            if kind == "adv_fine":
                clock.t += op[1] / 2**30
                adv_since_fail = True
                continue
            if kind in ("adv_rec", "adv_rec_f"):
                if m.state == "open":
                    target = m.opened_at + m.recovery + (op[1] * FINE if kind == "adv_rec" else op[1])
                    if target > t:
                        goto(target)
                        adv_since_fail = True
                continue
            if kind in ("adv_win", "adv_win_f"):
                live = m.live(t)
                if m.state == "closed" and live:
                    target = live[0][0] + m.window + (op[1] * FINE if kind == "adv_win" else op[1])
                    if target > t:
                        goto(target)
                        adv_since_fail = True
                        info["boundary_age"] = True
                continue
            if kind == "adv_win_class":
                live = [f for f in m.live(t) if f[1] == op[1]]
                if m.state == "closed" and live:
                    target = live[0][0] + m.window + op[2] * FINE
                    if target > t:
                        goto(target)
                        adv_since_fail = True
                        info["boundary_age"] = True
                continue
            if kind == "fail_n":
                got = want = None
                prop = "C06"
                for _ in range(op[2]):
                    bstate = m.state
                    got = real.record_failure(ErrorClass[op[1]])
                    want = m.record_failure(t, op[1])
                    if want == "circuit_opened":
                        info["opens"] += 1
                    if got != want or real.state.value != m.state:
                        prop = "C07" if bstate in ("half_open", "open") else "C06"
                        break
                adv_since_fail = False
            elif kind == "allow":
                d = real.allow()
                got = (d.allowed, d.state.value, d.event)
                want = m.allow(t)
                prop = "C07"
                if want[1] == "half_open":
                    info["half_open"] = True
                    if not want[0]:
                        info["probe_rejections"] += 1
            elif kind == "succ":
                got = real.record_success()
                want = m.record_success(t)
                prop = "C07" if before == "half_open" else "C06"
                if want == "circuit_closed":
                    info["closed_again"] += 1
            elif kind == "fail":
                got = real.record_failure(ErrorClass[op[1]])
                nlive = len(m.live(t))
                want = m.record_failure(t, op[1])
                prop = "C07" if before in ("half_open", "open") else "C06"
                if want == "circuit_opened":
                    info["opens"] += 1
                    if before == "closed" and nlive >= 1 and adv_since_fail:
                        info["open_after_advance"] = True
                    if info["closed_again"]:
                        info["cycle"] = True
                adv_since_fail = False
            elif kind == "cancel":
                got = real.record_cancel()
                want = m.record_cancel(t)
                prop = "C07"
            elif kind == "state":
                got = real.state.value
                want = m.state
                prop = "C07" if m.state != "closed" else "C06"
            else:
                raise AssertionError(kind)
            rs = real.state.value
            if got != want or rs != m.state:
                what = f"op #{i} {op} at t={t} x 2^-30 s (model state before: {before}): implementation returned {got!r} / state {rs}, model {want!r} / state {m.state}"
                out.append((prop, f"{prop}:breaker-{kind}-in-{before}", f"breaker {spec}: {what}"))
                break
    finally:
        bootstrap.set_clock(None)
    return out, info
