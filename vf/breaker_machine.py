"""Component-level history machine for CircuitBreaker (shared by C06 and C07)."""
from __future__ import annotations

from hypothesis import strategies as st

from . import bootstrap

bootstrap.install()

from redress import CircuitBreaker, ErrorClass  # noqa: E402

from . import gen  # noqa: E402
from .harness import VClock, g  # noqa: E402
from .models import BreakerModel  # noqa: E402

CLASSES = gen.ALL


@st.composite
def breaker_cfg(draw):
    spec = {
        "threshold": draw(st.sampled_from([1, 1, 2, 2, 3, 4])),
        "window": draw(st.sampled_from([4, 16, 64, 256])),
        "recovery": draw(st.sampled_from([4, 16, 64, 256])),
    }
    t = draw(st.sampled_from(["default", "default", "subset", "empty", "all"]))
    if t == "subset":
        spec["trip_on"] = draw(st.lists(st.sampled_from(CLASSES), min_size=1, max_size=3, unique=True))
    elif t == "empty":
        spec["trip_on"] = []
    elif t == "all":
        spec["trip_on"] = list(CLASSES)
    if gen.chance(draw, 0.5, "bm-ct"):
        spec["class_thresholds"] = draw(st.dictionaries(st.sampled_from(CLASSES), st.sampled_from([1, 2, 2, 3]), min_size=1, max_size=2))
    return spec


def op_st(counted: list):
    """Operations; failure classes are mostly drawn from the classes this configuration counts."""
    counted = counted or ["TRANSIENT"]
    return st.one_of(
        st.tuples(st.just("allow")),
        st.tuples(st.just("allow")),
        st.tuples(st.just("succ")),
        st.tuples(st.just("fail"), st.sampled_from(counted)),
        st.tuples(st.just("fail"), st.sampled_from(counted)),
        st.tuples(st.just("fail"), st.sampled_from(counted)),
        st.tuples(st.just("fail"), st.sampled_from(CLASSES)),
        st.tuples(st.just("cancel")),
        st.tuples(st.just("state")),
        st.tuples(st.just("adv"), st.sampled_from([1, 1, 2, 4, 16, 64])),
        st.tuples(st.just("adv_rec"), st.sampled_from([-1, 0, 0, 1])),  # to recovery boundary (+/- 1 tick)
        st.tuples(st.just("adv_win"), st.sampled_from([-1, 0, 0, 1])),  # oldest live failure ages to window (+/- 1)
        st.tuples(st.just("adv_win_class"), st.sampled_from(counted), st.sampled_from([-1, 0, 0, 1])),  # oldest live failure of that class
    )


def counted_classes(spec: dict) -> list:
    trip = spec.get("trip_on")
    base = ["TRANSIENT", "SERVER_ERROR"] if trip is None else list(trip)
    return sorted(set(base) | set(spec.get("class_thresholds") or {}))


@st.composite
def history_case(draw, max_ops: int = 60):
    spec = draw(breaker_cfg())
    ops = draw(st.lists(op_st(counted_classes(spec)), min_size=1, max_size=max_ops))
    return {"breaker": spec, "ops": [list(o) for o in ops]}


def make_real(spec: dict) -> CircuitBreaker:
    kw: dict = dict(failure_threshold=spec["threshold"], window_s=g(spec["window"]), recovery_timeout_s=g(spec["recovery"]))
    if spec.get("trip_on") is not None:
        kw["trip_on"] = {ErrorClass[k] for k in spec["trip_on"]}
    if spec.get("class_thresholds"):
        kw["class_thresholds"] = {ErrorClass[k]: v for k, v in spec["class_thresholds"].items()}
    return CircuitBreaker(**kw)


def run_history(case: dict):
    """Returns (violations [(prop, sig, msg)], info)."""
    spec = case["breaker"]
    clock = VClock(None)
    out: list = []
    info = {"opens": 0, "open_after_advance": False, "boundary_age": False, "cycle": False, "half_open": False, "probe_rejections": 0, "closed_again": 0}
    bootstrap.set_clock(clock)
    try:
        real = make_real(spec)
        m = BreakerModel(spec)
        adv_since_fail = False
        seen_states = []
        for i, op in enumerate(case["ops"]):
            t = clock.rel_ticks()
            kind = op[0]
            before = m.state
            if kind == "adv":
                clock.t += g(op[1])
                adv_since_fail = True
                continue
            if kind == "adv_rec":
                if m.state == "open":
                    target = m.opened_at + m.recovery + op[1]
                    if target > t:
                        clock.t = clock.t0 + g(target)
                        adv_since_fail = True
                continue
            if kind == "adv_win":
                live = m.live(t)
                if m.state == "closed" and live:
                    target = live[0][0] + m.window + op[1]
                    if target > t:
                        clock.t = clock.t0 + g(target)
                        adv_since_fail = True
                        info["boundary_age"] = True
                continue
            if kind == "adv_win_class":
                live = [f for f in m.live(t) if f[1] == op[1]]
                if m.state == "closed" and live:
                    target = live[0][0] + m.window + op[2]
                    if target > t:
                        clock.t = clock.t0 + g(target)
                        adv_since_fail = True
                        info["boundary_age"] = True
                continue
            if kind == "allow":
                d = real.allow()
                got = (d.allowed, d.state.value, d.event)
                want = m.allow(t)
                prop = "C07"
                if want[1] == "half_open":
                    info["half_open"] = True
                    if not want[0]:
                        info["probe_rejections"] += 1
            elif kind == "succ":
                got = real.record_success()
                want = m.record_success(t)
                prop = "C07" if before == "half_open" else "C06"
                if want == "circuit_closed":
                    info["closed_again"] += 1
            elif kind == "fail":
                got = real.record_failure(ErrorClass[op[1]])
                nlive = len(m.live(t))
                want = m.record_failure(t, op[1])
                prop = "C07" if before in ("half_open", "open") else "C06"
                if want == "circuit_opened":
                    info["opens"] += 1
                    if before == "closed" and nlive >= 1 and adv_since_fail:
                        info["open_after_advance"] = True
                    if info["closed_again"]:
                        info["cycle"] = True
                adv_since_fail = False
            elif kind == "cancel":
                got = real.record_cancel()
                want = m.record_cancel(t)
                prop = "C07"
            elif kind == "state":
                got = real.state.value
                want = m.state
                prop = "C07" if m.state != "closed" else "C06"
            else:
                raise AssertionError(kind)
            rs = real.state.value
            if got != want or rs != m.state:
                what = f"op #{i} {op} at t={t} ticks (model state before: {before}): implementation returned {got!r} / state {rs}, model {want!r} / state {m.state}"
                out.append((prop, f"{prop}:breaker-{kind}-in-{before}", f"breaker {spec}: {what}"))
                break
    finally:
        bootstrap.set_clock(None)
    return out, info
