"""E2 — independent spec-level reference models (integer ticks of 1/64 s)."""
from __future__ import annotations

DEFAULT_TRIP = {"TRANSIENT", "SERVER_ERROR"}


class BreakerModel:
    """closed / open / half-open breaker as the property statements (C06, C07) describe it."""

    def __init__(self, spec: dict) -> None:
        self.threshold = spec.get("threshold", 5)
        self.window = spec.get("window", 64 * 60)
        self.recovery = spec.get("recovery", 64 * 30)
        self.class_thresholds = dict(spec.get("class_thresholds") or {})
        trip = spec.get("trip_on")
        self.trip_on = set(DEFAULT_TRIP if trip is None else trip) | set(self.class_thresholds)
        self.state = "closed"
        self.opened_at: int | None = None
        self.probe = False
        self.fails: list = []  # (tick, class) counted since the last transition

    # -- helpers
    def live(self, t: int) -> list:
        return [f for f in self.fails if t - f[0] < self.window]

    def _open(self, t: int) -> str:
        self.state = "open"
        self.opened_at = t
        self.probe = False
        self.fails = []
        return "circuit_opened"

    # -- operations (return what the public API returns)
    def allow(self, t: int):
        if self.state == "open":
            if t - self.opened_at >= self.recovery:
                self.state = "half_open"
                self.probe = True
                return (True, "half_open", "circuit_half_open")
            return (False, "open", "circuit_rejected")
        if self.state == "half_open":
            if self.probe:
                return (False, "half_open", "circuit_rejected")
            self.probe = True
            return (True, "half_open", None)
        return (True, "closed", None)

    def record_success(self, t: int):
        if self.state == "half_open":
            self.state = "closed"
            self.opened_at = None
            self.probe = False
            self.fails = []
            return "circuit_closed"
        return None

    def record_failure(self, t: int, klass: str):
        if self.state == "half_open":
            return self._open(t)
        if self.state == "open":
            return None
        if klass not in self.trip_on:
            return None
        self.fails.append((t, klass))
        live = self.live(t)
        self.fails = live
        ct = self.class_thresholds.get(klass)
        if ct is not None and sum(1 for f in live if f[1] == klass) >= ct:
            return self._open(t)
        if len(live) >= self.threshold:
            return self._open(t)
        return None

    def record_cancel(self, t: int):
        if self.state == "half_open":
            self.probe = False
        return None


class BudgetWindowModel:
    """Grants are kept as (time, tokens) so bulk costs of 10**5 stay cheap."""

    def __init__(self, max_retries: int, window: int) -> None:
        self.max = max_retries
        self.window = window
        self._g: list = []

    @property
    def grants(self) -> list:
        return [t for t, n in self._g for _ in range(min(n, 50))]  # for messages only (truncated per grant)

    @grants.setter
    def grants(self, times) -> None:
        self._g = [(t, 1) for t in times]

    def live_count(self, t: int) -> int:
        return sum(n for x, n in self._g if t - x < self.window)

    def live(self, t: int) -> list:
        return [x for x, n in self._g if t - x < self.window]

    def consume(self, t: int, cost: int = 1) -> bool:
        if self.live_count(t) + cost > self.max:
            return False
        self._g.append((t, cost))
        return True

    def remaining(self, t: int) -> int:
        return max(self.max - self.live_count(t), 0)

    def window_bound_ok(self) -> bool:
        """For every grant time g: number of tokens granted in (g - window, g] <= max."""
        for x, _ in self._g:
            if sum(n for y, n in self._g if x - self.window < y <= x) > self.max:
                return False
        return True
