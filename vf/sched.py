"""E4 — deterministic thread scheduler with pre-emption-bounded schedule enumeration.

Real threads, exactly one runnable at a time (baton semaphores).  Pre-emption points are the
`line` trace events of frames whose code lives in the target source files (redress/circuit.py,
redress/budget.py).  Locks created by the component (through the `threading.Lock` dispatcher)
are cooperative `SchedLock`s: a thread that finds the lock held is marked blocked and the baton
moves on; "every unfinished thread is blocked" is reported as a deadlock.

A schedule is the list of choices taken at decision points (points where more than one thread
could run).  `explore()` enumerates schedules depth-first, optionally bounding the number of
*pre-emptive* switches (a switch away from a thread that could have continued).
"""
from __future__ import annotations

import sys
import threading
from typing import Callable

from . import bootstrap

REAL_LOCK = bootstrap.REAL["Lock"]


class Deadlock(Exception):
    pass


class SchedulerHang(Exception):
    pass


class SchedLock:
    def __init__(self, owner_ref: list, reentrant: bool = False) -> None:
        self.ref = owner_ref  # [Sched | None]
        self.held = False
        self.owner = None
        self.depth = 0
        self.reentrant = reentrant

    def acquire(self, blocking: bool = True, timeout: float = -1) -> bool:
        s = self.ref[0]
        if s is None or not s.running:
            # single-threaded phases (set-up prefix, sequential reference runs, observation)
            if self.held and not self.reentrant:
                raise Deadlock("lock re-acquired by the only running thread")
            self.held = True
            self.depth += 1
            return True
        me = s.current
        if self.held and self.reentrant and self.owner == me:
            self.depth += 1
            return True
        while self.held:
            if not blocking:
                return False
            s.blocked[me] = self
            s.yield_point(me, forced=True)
        s.blocked[me] = None
        self.held = True
        self.owner = me
        self.depth = 1
        return True

    def release(self) -> None:
        self.depth -= 1
        if self.depth <= 0:
            self.held = False
            self.owner = None
            self.depth = 0

    def locked(self) -> bool:
        return self.held

    def __enter__(self):
        self.acquire()
        return self

    def __exit__(self, *a):
        self.release()
        return False


class LockFactory:
    """Installed as bootstrap.ACTIVE_SCHED while the component under test is being constructed."""

    def __init__(self) -> None:
        self.ref: list = [None]
        self.locks: list = []

    def make_lock(self, reentrant: bool = False) -> SchedLock:
        l = SchedLock(self.ref, reentrant)
        self.locks.append(l)
        return l


class Sched:
    def __init__(self, bodies: list, choices: list, target_files: set, factory: LockFactory) -> None:
        self.bodies = bodies
        self.n = len(bodies)
        self.choices = list(choices)
        self.pos = 0
        self.decisions: list = []  # (runnable tuple, current-if-runnable, chosen)
        self.batons = [threading.Semaphore(0) for _ in bodies]
        self.done = [False] * self.n
        self.blocked: list = [None] * self.n
        self.results: list = [None] * self.n
        self.current = None
        self.main = threading.Semaphore(0)
        self.error: BaseException | None = None
        self.target_files = target_files
        self.factory = factory
        self.running = False
        self.preemptions = 0
        self.preempt_inside_method = 0
        self.steps = 0

    # -- choice ---------------------------------------------------------------
    def _runnable(self) -> list:
        return [i for i in range(self.n) if not self.done[i] and (self.blocked[i] is None or not self.blocked[i].held)]

    def _pick(self, me):
        runnable = self._runnable()
        if not runnable:
            if all(self.done):
                return None
            raise Deadlock(f"threads {[i for i in range(self.n) if not self.done[i]]} all blocked")
        if len(runnable) == 1:
            return runnable[0]
        cur = me if me in runnable else None
        if self.pos < len(self.choices):
            c = self.choices[self.pos] % len(runnable)
        else:
            c = runnable.index(cur) if cur is not None else 0  # default: keep running, else lowest id
        self.pos += 1
        chosen = runnable[c]
        self.decisions.append((tuple(runnable), cur, c))
        if cur is not None and chosen != cur:
            self.preemptions += 1
        return chosen

    # -- called from worker threads ----------------------------------------------
    def yield_point(self, me, forced: bool = False) -> None:
        self.steps += 1
        if self.steps > 200000:
            self.error = SchedulerHang("too many steps")
            self.main.release()
            threading.Event().wait()
        try:
            nxt = self._pick(me)
        except Deadlock as e:
            self.error = e
            self.main.release()
            threading.Event().wait()  # park this daemon thread for good
            return
        if nxt == me:
            return
        self.current = nxt
        self.batons[nxt].release()
        self.batons[me].acquire()

    def _finish(self, me) -> None:
        self.done[me] = True
        try:
            nxt = self._pick(None)
        except Deadlock as e:
            self.error = e
            self.main.release()
            return
        if nxt is None:
            self.main.release()
            return
        self.current = nxt
        self.batons[nxt].release()

    def _tracer(self, me):
        files = self.target_files

        def local(frame, event, arg):
            if event == "line":
                self.yield_point(me)
            return local

        def glob(frame, event, arg):
            if event == "call" and frame.f_code.co_filename in files:
                return local
            return None

        return glob

    def _worker(self, me) -> None:
        self.batons[me].acquire()
        sys.settrace(self._tracer(me))
        try:
            try:
                self.results[me] = ("ok", self.bodies[me]())
            except BaseException as e:  # noqa: BLE001
                self.results[me] = ("exc", type(e).__name__, str(e)[:80])
        finally:
            sys.settrace(None)
            self._finish(me)

    def run(self) -> list:
        self.factory.ref[0] = self
        self.running = True
        try:
            ths = [threading.Thread(target=self._worker, args=(i,), daemon=True) for i in range(self.n)]
            for t in ths:
                t.start()
            first = self._pick(None)
            self.current = first
            self.batons[first].release()
            if not self.main.acquire(timeout=20):
                raise SchedulerHang("no progress for 20 s")
            if self.error is not None:
                raise self.error
            for t in ths:
                t.join(timeout=5)
            return self.results
        finally:
            self.running = False
            self.factory.ref[0] = None


def explore(make: Callable[[], tuple], target_files: set, *, max_preemptions: int | None, max_schedules: int, prefix_choices: list | None = None):
    """Depth-first enumeration of schedules.

    make() -> (factory, bodies, observe) builds a fresh component (with its locks created through
    `factory`) and returns thread bodies plus an observation function called after the run.
    Yields (choices, results, observation, sched) per schedule; stops after max_schedules.
    Returns via generator exhaustion; `explore.complete` tells whether the tree was exhausted.
    """
    stack = [list(prefix_choices or [])]
    count = 0
    explore.complete = True
    while stack:
        if count >= max_schedules:
            explore.complete = False
            return
        prefix = stack.pop()
        factory, bodies, observe = make()
        s = Sched(bodies, prefix, target_files, factory)
        try:
            res = s.run()
            obs = observe()
            err = None
        except (Deadlock, SchedulerHang) as e:
            res, obs, err = None, None, e
        count += 1
        yield prefix, res, obs, s, err
        # branch on alternatives at decision points beyond the prefix
        pre = 0
        taken = s.decisions
        for i, (runnable, cur, c) in enumerate(taken):
            if i >= len(prefix):
                for alt in range(len(runnable)):
                    if alt == c:
                        continue
                    cost = 1 if (cur is not None and runnable[alt] != cur) else 0
                    if max_preemptions is not None and pre + cost > max_preemptions:
                        continue
                    stack.append([t[2] for t in taken[:i]] + [alt])
            if cur is not None and runnable[c] != cur:
                pre += 1


explore.complete = True
