"""Command line: python -m vf.cli <property id> [--tier quick|thorough] [--seed N] [--replay path]"""
import argparse
import os
import sys


def main(argv=None) -> int:
    ap = argparse.ArgumentParser()
    ap.add_argument("prop")
    ap.add_argument("--tier", default=os.environ.get("VERIF_TIER") or "quick", choices=["quick", "thorough"])
    ap.add_argument("--seed", type=int, default=None)
    ap.add_argument("--replay", default=None)
    ap.add_argument("--stream", default=None)
    a = ap.parse_args(argv)
    seed = a.seed
    if seed is None:
        try:
            seed = int(os.environ.get("VERIF_SEED", "1"))
        except ValueError:
            seed = 1
    from . import bootstrap

    bootstrap.install()
    from . import runner

    mod = "vf.props." + a.prop.lower()
    try:
        return runner.run_property(mod, a.tier, seed, replay=a.replay, only_stream=a.stream)
    except SystemExit:
        raise
    except BaseException as x:  # noqa: BLE001
        import traceback

        traceback.print_exc()
        print(f"HARNESS-ERROR: {type(x).__name__}: {x}", file=sys.stderr)
        return 2


if __name__ == "__main__":
    sys.exit(main())
