"""C07 — open breaker fails fast; recovery admits exactly one probe."""
from __future__ import annotations

from hypothesis import strategies as st

from . import _common as C
from .. import bootstrap, breaker_machine as bm, gen, oracles
from ..harness import Suspend, VClock, g
from ..models import BreakerModel
from ..runner import Property, Stream, Verdict

from redress import AbortRetryError, AsyncPolicy, AsyncRetry, CircuitOpenError, ErrorClass, RetryOutcome  # noqa: E402

# ---------------------------------------------------------------------------- (a) component level


def check_component(case: dict) -> Verdict:
    v = Verdict()
    out, info = bm.run_history(case)
    v.violations = [(sig, msg) for prop, sig, msg in out if prop == "C07"]
    v.nontrivial = info["half_open"]
    if info["half_open"]:
        v.tag("reached-half-open")
    if info["probe_rejections"]:
        v.tag("second-probe-rejected")
    if info["closed_again"]:
        v.tag("probe-success-closed")
    if info["cycle"]:
        v.tag("reopened-after-close")
    return v


# ---------------------------------------------------------------------------- (b) policy level, sequential histories

PROFILE = {
    "max_attempts": 3,
    "deadline": 0.1,
    "abort": 0.25,
    "handler": 0.1,
    "budget": 0.0,
    "special": 0.12,
    "special_kinds": ["abort", "kbd", "cancel", "copen", "genexit"],
    "overshoot": 0.0,
    "p_retryable": 0.8,
    "max_dur": 4,
    "max_delay_ticks": 4,
    "multi_call": (2, 8),
}
POLICY_ENTRIES = [f"{a}Policy{v}.{m}" for a in ("", "Async") for v in ("", ".noretry") for m in ("call", "execute")] + ["Policy.context.call", "AsyncPolicy.context.call"]


@st.composite
def policy_history(draw):
    case = draw(gen.retry_case(PROFILE))
    spec = draw(bm.breaker_cfg())
    case["cfg"]["breaker"] = spec
    n = len(case["calls"])
    case["entries"] = draw(st.lists(st.sampled_from(POLICY_ENTRIES), min_size=1, max_size=3))
    for c in case["calls"]:
        if c.get("handler") is None and gen.chance(draw, 0.2, "c07-defer"):
            # probes that end by deferral or by a handler's abort
            c["handler"] = draw(st.lists(st.sampled_from(["defer", "defer", "sleep", "abort"]), min_size=1, max_size=3))
        if gen.chance(draw, 0.6, "c07-preops"):
            c["pre_ops"] = [
                list(o)
                for o in draw(
                    st.lists(
                        st.one_of(
                            st.tuples(st.just("adv"), st.sampled_from([1, 4, 16, 64, 256])),
                            st.tuples(st.just("adv"), st.just(spec["recovery"])),
                            st.tuples(st.just("adv"), st.just(spec["recovery"] - 1)),
                            st.tuples(st.just("fail"), st.sampled_from(["TRANSIENT", "SERVER_ERROR", "UNKNOWN"])),
                            st.tuples(st.just("allow")),
                            st.tuples(st.just("succ")),
                            st.tuples(st.just("cancel")),
                        ),
                        max_size=3,
                    )
                )
            ]
    if spec.get("trip_on") != [] and spec["threshold"] <= 4 and gen.chance(draw, 0.4, "c07-prelude"):
        # start the history from an interesting breaker state, reached through the public API (and traced, so
        # the model follows): open / recovery elapsed / half-open with the slot released by an abandoned probe
        k = sorted(spec.get("trip_on") or ["TRANSIENT"])[0]
        stage = draw(st.sampled_from(["open", "ready", "released", "released"]))
        prelude = [["fail", k]] * spec["threshold"]
        if stage in ("ready", "released"):
            prelude.append(["adv", spec["recovery"]])
        if stage == "released":
            prelude += [["allow"], ["cancel"]]
        case["calls"][0]["pre_ops"] = prelude + (case["calls"][0].get("pre_ops") or [])
    return case


def check_policy(case: dict) -> Verdict:
    v = Verdict()
    out: list = []
    entries = case["entries"]
    if any(".noretry." in e for e in entries):
        case = {**case, "cfg": {**case["cfg"], "result_classifier": False}}
    env, cvs = C.run(case, entries[0])
    spec = case["cfg"]["breaker"]
    m = BreakerModel(spec)
    reached_half = False
    rejected_calls = 0
    # 1. every observed breaker operation (direct or made by a policy) agrees with the model
    for e in env.trace:
        if e[0] != "brk":
            continue
        _, method, arg, result, t = e
        before = m.state
        if method == "allow":
            want = m.allow(t)
        elif method == "record_success":
            want = m.record_success(t)
        elif method == "record_failure":
            want = m.record_failure(t, arg)
        else:
            want = m.record_cancel(t)
        if m.state == "half_open":
            reached_half = True
        if result != want:
            out.append((f"C07:policy-history:breaker-{method}-in-{before}", f"breaker {spec}: {method}({arg}) at t={t} returned {result!r}, model says {want!r} (state before {before})"))
            break
    # 2. the policy honours the decision: rejected => CircuitOpenError / not-ok outcome with 0 attempts, no invocation, no record
    for cv in cvs:
        brk = [e for e in cv.events if e[0] == "brk"]
        allows = [e for e in brk if e[1] == "allow"]
        records = [e for e in brk if e[1] != "allow"]
        end = oracles.ending(cv)
        if not allows:
            if cv.atts:
                # the operation ran although the breaker was never asked: whatever its state, it could not refuse
                out.append(("C07:operation-invoked-without-admission", f"call #{cv.j} ({entries[cv.j % len(entries)]}) invoked the operation {len(cv.atts)} times without asking the breaker for admission (breaker state {m.state})"))
            if records and not cv.atts:
                # a call that never asked for admission reported to the breaker
                out.append(("C07:record-by-unadmitted-call", f"call #{cv.j} ({entries[cv.j % len(entries)]}) was never admitted but reported {[r[1] for r in records]}"))
            continue
        if not allows[0][3][0]:
            rejected_calls += 1
            if cv.atts:
                out.append(("C07:operation-invoked-while-open", f"call #{cv.j} was rejected ({allows[0][3][1]}) but the operation ran {len(cv.atts)} times"))
            if records:
                out.append(("C07:rejection-recorded", f"rejected call #{cv.j} reported {[r[1] for r in records]} to the breaker"))
            if end["kind"] != "circuit_open":
                out.append(("C07:rejection-not-delivered", f"rejected call #{cv.j} ended as {end['kind']} {cv.final}"))
            elif cv.final["via"] == "outcome" and (cv.final["attempts"] != 0 or cv.final["ok"]):
                out.append(("C07:rejection-outcome", f"rejected execute() returned {cv.final}"))
            # breaker events: rejection reported with attempt 0 and the breaker's state
            for ev in cv.events:
                if ev[0] == "metric" and ev[1] == "circuit_rejected" and (ev[2] != 0 or ev[4].get("state") != allows[0][3][1]):
                    out.append(("C07:rejection-event", f"circuit_rejected event {ev[1:]} does not carry attempt 0 / state {allows[0][3][1]}"))
        elif not cv.atts and end["kind"] not in ("abort",) and not any(e[0] == "poll" and e[2] for e in cv.events):
            out.append(("C07:admitted-but-not-invoked", f"call #{cv.j} was admitted but the operation never ran (ended {end['kind']})"))
        elif allows[0][3][1] == "half_open" and records:
            # this call is the probe: its result decides the breaker's next state
            kinds = [r[1] for r in records]
            nested = bool(cv.atts) and cv.atts[-1].kind == "copen"
            how = f"{end['kind']}/{oracles.reported_reason(cv)}"
            if end["kind"] == "fail" and not nested and "record_failure" not in kinds:
                out.append((f"C07:failed-probe-not-reopened:{end.get('mode', '?')}", f"probe call #{cv.j} ({entries[cv.j % len(entries)]}) ended {how} but told the breaker {kinds}: the circuit is not re-opened"))
            if end["kind"] == "value" and "record_success" not in kinds:
                out.append((f"C07:successful-probe-not-closed:{end.get('mode', '?')}", f"probe call #{cv.j} ({entries[cv.j % len(entries)]}) returned a value but told the breaker {kinds}"))
            v.tag("probe-ended:" + ("nested-rejection" if nested and end["kind"] == "fail" else how))
    v.violations = out
    v.nontrivial = reached_half
    if reached_half:
        v.tag("reached-half-open")
    v.tag(f"rejected-calls={min(rejected_calls, 3)}")
    return v


# ---------------------------------------------------------------------------- (c) interleaved async calls


class _Spy:
    def __init__(self, real, log, clock, cur):
        self._real, self._log, self._clock, self._cur = real, log, clock, cur

    @property
    def state(self):
        return self._real.state

    def allow(self):
        d = self._real.allow()
        self._log.append((self._cur[0], "allow", None, (d.allowed, d.state.value, d.event), self._clock.rel_ticks()))
        return d

    def record_success(self):
        r = self._real.record_success()
        self._log.append((self._cur[0], "record_success", None, r, self._clock.rel_ticks()))
        return r

    def record_failure(self, klass):
        r = self._real.record_failure(klass)
        self._log.append((self._cur[0], "record_failure", klass.name, r, self._clock.rel_ticks()))
        return r

    def record_cancel(self):
        r = self._real.record_cancel()
        self._log.append((self._cur[0], "record_cancel", None, r, self._clock.rel_ticks()))
        return r


class _Boom(Exception):
    pass


@st.composite
def interleaving_case(draw):
    spec = {"threshold": draw(st.sampled_from([1, 1, 2])), "window": 256, "recovery": draw(st.sampled_from([4, 16])), "trip_on": ["UNKNOWN", "TRANSIENT"]}
    ntasks = draw(st.sampled_from([2, 3, 3, 4]))
    tasks = []
    for _ in range(ntasks):
        tasks.append(
            {
                "mode": draw(st.sampled_from(["call", "execute"])),
                "retry": draw(st.booleans()),
                "abort": draw(st.sampled_from([None, None, 0, 1, 2])),
                "script": draw(st.lists(st.sampled_from(["ok", "fail", "fail"]), min_size=1, max_size=2)),
                "susp": draw(st.sampled_from([1, 1, 2, 3])),
                # the caller's metric hook dies with a BaseException (Ctrl-C, sys.exit, task cancellation) when it is
                # told that the call was rejected: a call that was never admitted must still not touch the probe slot
                "rej_raise": draw(st.sampled_from([None, None, None, "KeyboardInterrupt", "SystemExit", "CancelledError"])),
            }
        )
    sched = draw(
        st.lists(
            st.one_of(st.integers(0, ntasks - 1), st.integers(0, ntasks - 1), st.sampled_from(["adv1", "adv_rec", "adv_rec"])),
            max_size=30,
        )
    )
    return {"breaker": spec, "pre": draw(st.sampled_from(["closed", "open", "open"])), "tasks": tasks, "sched": sched}


def check_interleaving(case: dict) -> Verdict:
    v = Verdict()
    out: list = []
    spec = case["breaker"]
    clock = VClock(None)
    log: list = []
    cur = [None]
    ops_run: list = []
    bootstrap.set_clock(clock)
    try:
        real = bm.make_real(spec)
        m = BreakerModel(spec)
        if case["pre"] == "open":
            for _ in range(spec["threshold"]):
                real.record_failure(ErrorClass.UNKNOWN)
                m.record_failure(0, "UNKNOWN")
        spy = _Spy(real, log, clock, cur)

        def make_task(i, t):
            n = {"op": 0, "poll": 0}

            async def op():
                k = n["op"]
                n["op"] += 1
                ops_run.append(i)
                for s in range(t["susp"]):
                    await Suspend(f"t{i}.op{k}.{s}")
                kind = t["script"][k] if k < len(t["script"]) else t["script"][-1]
                if kind == "fail":
                    raise _Boom()
                return ("value", i, k)

            async def sleeper(s):
                await Suspend(f"t{i}.sleep")

            def abort_if():
                k = n["poll"]
                n["poll"] += 1
                return t["abort"] is not None and k >= t["abort"]

            retry = AsyncRetry(classifier=lambda e: ErrorClass.UNKNOWN, strategy=lambda ctx: 0.0, max_attempts=2, max_unknown_attempts=None, sleeper=sleeper) if t["retry"] else None
            pol = AsyncPolicy(retry=retry, circuit_breaker=spy)
            kw = {}
            if t["abort"] is not None:
                kw["abort_if"] = abort_if
            if t.get("rej_raise"):
                import asyncio

                xt = {"KeyboardInterrupt": KeyboardInterrupt, "SystemExit": SystemExit, "CancelledError": asyncio.CancelledError}[t["rej_raise"]]

                def on_metric(event, attempt, sleep_s, tags):
                    if event == "circuit_rejected":
                        raise xt()

                kw["on_metric"] = on_metric
            return getattr(pol, t["mode"])(op, **kw)

        coros = {i: make_task(i, t) for i, t in enumerate(case["tasks"])}
        started: set = set()
        results: dict = {}
        admitted_probe: dict = {}  # task -> True while it holds the probe slot (admitted from half-open, not finished)
        max_outstanding_probes = 0
        overlap_in_half_open = False

        def step(i):
            nonlocal max_outstanding_probes, overlap_in_half_open
            cur[0] = i
            mark = len(log)
            try:
                coros[i].send(None)
            except StopIteration as si:
                results[i] = ("return", si.value)
                del coros[i]
            except BaseException as x:  # noqa: BLE001
                results[i] = ("raise", x)
                del coros[i]
            cur[0] = None
            for (who, method, arg, res, t) in log[mark:]:
                if method == "allow" and res[0] and res[1] == "half_open":
                    admitted_probe[who] = True
            if i in results:
                admitted_probe.pop(i, None)
            outstanding = [w for w in admitted_probe if w in coros]
            max_outstanding_probes = max(max_outstanding_probes, len(outstanding))
            if len(outstanding) > 1:
                out.append(("C07:two-probes-outstanding", f"calls {sorted(outstanding)} were both admitted as half-open probes and are outstanding at the same time; breaker log: {log[-8:]}"))
            if real.state.value == "half_open" and len(coros) >= 2:
                overlap_in_half_open = True

        for s in case["sched"]:
            if not coros:
                break
            if s == "adv1":
                clock.t += g(1)
            elif s == "adv_rec":
                if m.state == "open" or real.state.value == "open":
                    clock.t += g(spec["recovery"])
            else:
                live = sorted(coros)
                step(live[s % len(live)])
            if out:
                break
        guard = 0
        while coros and not out and guard < 500:
            step(sorted(coros)[0])
            guard += 1
        if coros and not out:
            raise RuntimeError("interleaving harness: tasks did not finish")
        # model replay of the breaker log, attribution checks
        m2 = BreakerModel(spec)
        if case["pre"] == "open":
            for _ in range(spec["threshold"]):
                m2.record_failure(0, "UNKNOWN")
        admitted: dict = {}
        for (who, method, arg, res, t) in log:
            if method == "allow":
                want = m2.allow(t)
                admitted[who] = res[0]
            elif method == "record_success":
                want = m2.record_success(t)
            elif method == "record_failure":
                want = m2.record_failure(t, arg)
            else:
                want = m2.record_cancel(t)
            if method != "allow" and not admitted.get(who, False):
                out.append(("C07:record-by-unadmitted-call", f"task {who} ({case['tasks'][who]}) called {method} without having been admitted; log {log}"))
                break
            if res != want:
                out.append((f"C07:interleaved:breaker-{method}", f"{method} by task {who} at t={t} returned {res!r}, model {want!r}; log {log}"))
                break
        for i, t in enumerate(case["tasks"]):
            if admitted.get(i) is False and i in ops_run:
                out.append(("C07:operation-invoked-while-open", f"task {i} was rejected but its operation ran"))
            elif i not in admitted and i in ops_run:
                out.append(("C07:operation-invoked-without-admission", f"task {i} ({t}) ran its operation without ever asking the breaker for admission; log {log}"))
    finally:
        bootstrap.set_clock(None)
        for c in list(locals().get("coros", {}).values()):
            c.close()
    v.violations = out[:1]
    v.nontrivial = overlap_in_half_open
    if overlap_in_half_open:
        v.tag("two-calls-outstanding-while-half-open")
    v.tag(f"max-probes={max_outstanding_probes}")
    return v


PROP = Property(
    id="C07",
    level="exploration",
    rule=(
        "(a) component: model-based histories as in C06 (allow/record_*/advance incl. exact recovery-timeout boundary +/- 1 "
        "tick), every return value and state compared with an independent model; (b) policy level: generated sequences of 2-8 "
        "calls through up to 3 different Policy/AsyncPolicy entry points (call/execute, with/without retry, abort polls) sharing "
        "one real breaker, interleaved with direct breaker operations and clock advances up to the exact timeout: every observed "
        "breaker call is replayed through the model, and rejected calls must end in CircuitOpenError / ok=False attempts=0 "
        "without invoking the operation or recording anything; (c) schedules: 2-4 AsyncPolicy calls whose operations have 1-3 "
        "suspension points are stepped under a generated interleaving with clock advances; at every instant at most one call "
        "admitted as a probe may be outstanding, calls never admitted must not record, the breaker log must replay through the "
        "model. Non-trivial = history reaches HALF_OPEN; for (c): two calls outstanding while the breaker is half-open."
    ),
    assumptions=[
        "straggler records (a call admitted while closed finishing during another call's probe) are not flagged: the breaker API carries no call identity",
        "async schedules are explored without an event loop: the harness steps coroutines itself",
    ],
    streams=[
        Stream("component", check_component, strategy=lambda tier: bm.history_case(60 if tier == "quick" else 200), quick=12000, thorough=300000),
        Stream("policy_history", check_policy, strategy=policy_history(), quick=8000, thorough=200000),
        Stream("interleavings", check_interleaving, strategy=interleaving_case(), quick=12000, thorough=400000),
    ],
)
