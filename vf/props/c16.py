"""C16 — sleep-handler protocol: SLEEP sleeps, DEFER schedules, ABORT aborts."""
from __future__ import annotations

import itertools

from hypothesis import strategies as st

from . import _common as C
from .. import gen, oracles
from ..runner import Property, Stream, Verdict

PROFILE = {
    "max_attempts": 6,
    "deadline": 0.15,
    "abort": 0.05,
    "handler": 0.8,
    "budget": 0.1,
    "special": 0.0,
    "overshoot": 0.1,
    "p_retryable": 0.95,
    "max_dur": 8,
    "max_delay_ticks": 16,
    "placements": True,
    "multi_call": (1, 2),
    "handler_time": 0.3,
    "offgrid_delays": 0.15,
}
ENTRIES = C.RETRY_ENTRIES + ["Retry.context.call", "AsyncRetry.context.call", "Policy.context.call", "AsyncRetryPolicy.context.call", "decorator.call", "adecorator.call", "Retry.from_config.call", "AsyncRetryPolicy.from_config.execute"]


def fix_placement(case: dict) -> dict:
    """The decorator and from_config cannot express every placement; normalise to what they can."""
    e = case["entry"]
    pl = dict(case.get("placement") or {})
    if e.startswith(("decorator", "adecorator")):
        for k in ("sleeper", "before", "handler"):
            if pl.get(k) in ("policy", "both"):
                pl[k] = "call"  # everything is given at construction; harness labels it 'call'
        if pl.get("attempt_hooks") == "policy":
            pl["attempt_hooks"] = "call"
    if not e.startswith(("Async", "adecorator")):
        pl.pop("sleeper_flavour", None)
        pl.pop("before_flavour", None)
    case = dict(case)
    case["placement"] = pl
    return case


def check(case: dict) -> Verdict:
    v = Verdict()
    case = fix_placement(case)
    if case.get("string_answers") and case["entry"].endswith(".call") and "decorator" not in case["entry"]:
        # the handler answers with the plain strings "sleep"/"defer"/"abort" instead of SleepDecision members
        # (SleepDecision is a str enum): the library must either refuse them (ValueError) or honour them fully
        case = {**case, "calls": [{**c, "handler": ["str:" + d if not d.startswith("str:") else d for d in c["handler"]]} if c.get("handler") else c for c in case["calls"]]}
    env, cvs = C.run(case)
    out: list = []
    for cv in cvs:
        info = oracles.c16(case, cv, out)
        if info["consultations"] >= 2 or (info["conflict"] and info["consultations"] >= 1):
            v.nontrivial = True
        if info["conflict"]:
            v.tag("both-placements")
        v.tag(f"consultations={min(info['consultations'], 4)}")
        v.tag(C.reason_tag(cv))
    v.violations = out
    v.tag("entry:" + case["entry"])
    pl = case.get("placement") or {}
    v.tag("sleeper@" + pl.get("sleeper", "call"))
    return v


def enum_protocol(tier: str):
    where = ["call", "policy", "both", "none"]
    decisions = [["sleep", "sleep", "sleep"], ["defer"], ["sleep", "defer"], ["abort"], ["sleep", "sleep", "abort"], None]
    entries = ["Retry.call", "Retry.execute", "AsyncRetry.call", "AsyncRetry.execute", "Policy.call", "AsyncPolicy.execute", "RetryPolicy.execute"]
    flavours = ["async", "sync", "awaitable", "awaitable_obj", "gen_coroutine"]
    for sl, bf, hd, dec, e in itertools.product(where, where, ["call", "policy", "both"], decisions, entries):
        fl = flavours if e.startswith("Async") else ["sync"]
        for f1 in fl:
            for f2 in fl if tier == "thorough" else fl[:1]:
                call = {"script": [{"dur": 1, "kind": "exc", "klass": "TRANSIENT"}, {"dur": 1, "kind": "res", "klass": "RATE_LIMIT"}, {"dur": 1, "kind": "exc", "klass": "TRANSIENT"}, {"dur": 0, "kind": "ok"}]}
                if dec is not None:
                    call["handler"] = dec
                yield {
                    "cfg": {"max_attempts": 5, "max_unknown": None, "default": {"vals": [0.03125, 0.0625]}},
                    "calls": [call],
                    "placement": {"sleeper": sl, "before": bf, "handler": hd, "sleeper_flavour": f1, "before_flavour": f2},
                    "entry": e,
                }


PROP = Property(
    id="C16",
    level="exploration",
    rule=(
        "Hypothesis-generated handler decision sequences over the retries of a run x placements of handler / before_sleep / "
        "sleeper (policy-level, call-level, both with distinct spies, neither -> default time.sleep/asyncio.sleep through the "
        "dispatcher) x sync / async / awaitable-returning callbacks x 20 entry points incl. context managers, @retry, "
        "from_config; plus the exhaustive product placement^3 x 6 decision sequences x 7 entry points x callback flavours. "
        "Oracle: per granted retry exactly one consultation with the applied delay at the overriding level; SLEEP => "
        "before_sleep then exactly one sleeper call with that delay then the next attempt; DEFER => nothing, SCHEDULED, "
        "next_sleep_s = delay; ABORT => nothing, ABORTED. Non-trivial = >= 2 "
        "consultations in a run, or an override conflict (both placements) with >= 1 consultation."
    ),
    streams=[
        Stream("protocol", check, strategy=st.tuples(C.with_entry(gen.retry_case(PROFILE), ENTRIES), st.sampled_from([False] * 9 + [True])).map(lambda t: {**t[0], "string_answers": t[1]}), quick=12000, thorough=300000),
        Stream("placements_exhaustive", check, enum=enum_protocol, quick=1, thorough=1, exhaustive=True),
    ],
)
