"""C18 — built-in backoff strategies are total and stay inside their envelopes."""
from __future__ import annotations

import math
from fractions import Fraction

from hypothesis import strategies as st

from .. import bootstrap

bootstrap.install()

from redress import Classification, ErrorClass  # noqa: E402
from redress import strategies as S  # noqa: E402
from redress.strategies import BackoffContext  # noqa: E402

from ..runner import Property, Stream, Verdict  # noqa: E402

BIG_ATTEMPTS = [63, 64, 65, 1022, 1023, 1024, 1025, 1074, 1075, 1076, 1750, 1751, 1752, 2000, 10**4, 10**5, 10**6]

finite_nonneg = st.floats(min_value=0.0, allow_nan=False, allow_infinity=False)
anyfloat = st.floats(allow_nan=True, allow_infinity=True)
draw_r = st.one_of(
    st.sampled_from([0.0, 2.0**-53, 0.5, 1.0 - 2.0**-53]),
    st.floats(min_value=0.0, max_value=1.0, exclude_max=True),
)
attempts = st.one_of(
    st.integers(1, 20),
    st.integers(1, 1100),
    st.sampled_from(BIG_ATTEMPTS),
    st.integers(1, 10**6),
)


@st.composite
def base_max(draw):
    """0 <= base_s <= max_s, any finite floats (incl. 0, subnormals, 1e300)."""
    special = [0.0, 5e-324, 2.2250738585072014e-308, 1e-9, 0.25, 1.0, 30.0, 1e300, 1.7976931348623157e308]
    a = draw(st.one_of(st.sampled_from(special), finite_nonneg))
    b = draw(st.one_of(st.sampled_from(special), finite_nonneg))
    lo, hi = (a, b) if a <= b else (b, a)
    return lo, hi


@st.composite
def jitter_case(draw):
    fn = draw(st.sampled_from(["decorrelated_jitter", "equal_jitter", "token_backoff"]))
    base, mx = draw(base_max())
    prev = draw(st.one_of(st.none(), st.sampled_from([0.0, 5e-324, 1.0, 1e308, 1.7976931348623157e308]), finite_nonneg))
    return {
        "fn": fn,
        "base": base,
        "max": mx,
        "attempt": draw(attempts),
        "prev": prev,
        "r": draw(draw_r),
        "klass": draw(st.sampled_from([k.name for k in ErrorClass])),
        "defaults": draw(st.integers(0, 9)) == 0,
        # the same strategy object serves many runs: earlier calls (any attempt numbers, in any order) come first
        "warm": draw(st.one_of(st.just([]), st.lists(st.tuples(attempts, draw_r), max_size=3))),
    }


def exact_cap(base: float, mx: float, growth: Fraction, attempt: int) -> Fraction:
    """min(max_s, base_s * growth**attempt) in exact rational arithmetic (with a log short-cut)."""
    if base == 0.0:
        return Fraction(0)
    # base >= 5e-324 = 2**-1074; growth >= 1.5 -> growth**attempt >= 2**(0.58*attempt)
    if attempt * math.log2(float(growth)) - 1075 > 1025:
        return Fraction(mx)
    return min(Fraction(mx), Fraction(base) * growth**attempt)


REL = 1e-12
ABS = 1e-320


def check_jitter(case: dict) -> Verdict:
    v = Verdict()
    fn = case["fn"]
    if case["defaults"]:
        f = getattr(S, fn)()
        base, mx = (0.25, 20.0) if fn == "token_backoff" else (0.25, 30.0)
    else:
        base, mx = case["base"], case["max"]
        f = getattr(S, fn)(base_s=base, max_s=mx)
    for wa, wr in case.get("warm") or []:
        sub = check_jitter_one(case, f, fn, base, mx, wa, None, wr)
        v.violations.extend(sub.violations)
    last = check_jitter_one(case, f, fn, base, mx, case["attempt"], case["prev"], case["r"])
    last.violations = v.violations + last.violations
    if case.get("warm"):
        last.tag("strategy-object-reused")
        if any(wa > case["attempt"] for wa, _ in case["warm"]):
            last.tag("lower-attempt-after-higher")
    return last


def check_jitter_one(case: dict, f, fn: str, base: float, mx: float, attempt: int, prev, r: float) -> Verdict:
    v = Verdict()
    bootstrap.set_draw(r)
    try:
        try:
            out = f(attempt, ErrorClass[case["klass"]], prev)
        except Exception as x:  # noqa: BLE001 - totality is the property
            v.fail(f"C18:{fn}:raises:{type(x).__name__}", f"{fn}(base_s={base!r}, max_s={mx!r})(attempt={attempt}, prev={prev!r}) raised {x!r}")
            out = None
    finally:
        bootstrap.set_draw(None)
    edge = r in (0.0,) or r >= 1.0 - 2.0**-52
    clamp = False
    if out is not None:
        if not isinstance(out, (int, float)) or not math.isfinite(out):
            v.fail(f"C18:{fn}:nonfinite", f"{fn}(base_s={base!r}, max_s={mx!r})(attempt={attempt}, prev={prev!r}, r={r!r}) = {out!r}")
        elif fn == "decorrelated_jitter":
            if not (0.0 <= out <= mx):
                v.fail(f"C18:{fn}:envelope", f"{fn}(base_s={base!r}, max_s={mx!r})(attempt={attempt}, prev={prev!r}, r={r!r}) = {out!r} not in [0, max_s]")
            clamp = out == mx
        else:
            growth = Fraction(2) if fn == "equal_jitter" else Fraction(3, 2)
            cap = exact_cap(base, mx, growth, attempt)
            clamp = cap == Fraction(mx)
            lo = float(cap / 2) * (1 - REL) - ABS
            hi = float(cap) * (1 + REL) + ABS
            if not (lo <= out <= hi):
                v.fail(
                    f"C18:{fn}:envelope",
                    f"{fn}(base_s={base!r}, max_s={mx!r})(attempt={attempt}, r={r!r}) = {out!r} not in [cap/2, cap], cap={float(cap)!r}",
                )
    v.nontrivial = attempt >= 64 or edge or clamp
    v.tag(fn, "attempt>=1024" if attempt >= 1024 else ("attempt>=64" if attempt >= 64 else "attempt<64"))
    if edge:
        v.tag("draw-at-endpoint")
    if clamp:
        v.tag("clamped-to-max")
    return v


# ---------------------------------------------------------------------------- retry_after_or


@st.composite
def rao_case(draw):
    return {
        "hint": draw(st.one_of(st.none(), anyfloat, st.integers(-5, 10**6), st.sampled_from([0.0, -0.0, 1e308, -1.5]))),
        "fallback": draw(st.one_of(anyfloat, st.sampled_from([0.0, 0.5, -1.0, 1e308]))),
        "remaining": draw(st.one_of(st.none(), finite_nonneg, st.sampled_from([0.0, 0.015625, 1.0]))),
        "jitter": draw(st.one_of(anyfloat, st.sampled_from([0.0, 0.25, -1.0, 1e308]))),
        "r": draw(draw_r),
        "legacy": draw(st.booleans()),
    }


def check_rao(case: dict) -> Verdict:
    v = Verdict()
    hint, fb, rem, jit, r = case["hint"], case["fallback"], case["remaining"], case["jitter"], case["r"]
    desc = f"retry_after_or(fallback->{fb!r}, jitter_s={jit!r}) hint={hint!r} remaining_s={rem!r} r={r!r}"
    try:
        if case["legacy"]:
            f = S.retry_after_or(lambda attempt, klass, prev: fb, jitter_s=jit)
        else:
            f = S.retry_after_or(lambda ctx: fb, jitter_s=jit)
    except Exception as x:  # noqa: BLE001
        v.fail(f"C18:retry_after_or:construct:{type(x).__name__}", f"{desc}: constructor raised {x!r}")
        return v
    ctx = BackoffContext(
        attempt=1,
        classification=Classification(ErrorClass.RATE_LIMIT, retry_after_s=hint),
        prev_sleep_s=None,
        remaining_s=rem,
        cause="exception",
    )
    bootstrap.set_draw(r)
    try:
        try:
            out = f(ctx)
        except Exception as x:  # noqa: BLE001
            v.fail(f"C18:retry_after_or:raises:{type(x).__name__}", f"{desc} raised {x!r}")
            return v
    finally:
        bootstrap.set_draw(None)
    ok = isinstance(out, (int, float)) and math.isfinite(out) and out >= 0 and (rem is None or out <= rem)
    if not ok:
        v.fail("C18:retry_after_or:envelope", f"{desc} = {out!r}: not finite/non-negative/<= remaining")
    hint_used = hint is not None and math.isfinite(hint)
    if ok and hint_used and not math.isnan(jit):
        lo = max(0.0, float(hint))
        hi = lo + max(0.0, jit)
        if math.isfinite(hi):
            cap = (lambda x: x) if rem is None else (lambda x: min(x, rem))
            if not (cap(lo) <= out <= cap(hi)):
                v.fail("C18:retry_after_or:hint", f"{desc} = {out!r}: not within [hint, hint+jitter] capped by remaining")
    v.nontrivial = (hint is not None and not math.isfinite(hint)) or (rem is not None and ok and out == rem) or r in (0.0, 1.0 - 2.0**-53) or not math.isfinite(fb)
    v.tag("hint" if hint_used else "fallback")
    if rem is not None and ok and out == rem:
        v.tag("capped-by-remaining")
    return v


# ---------------------------------------------------------------------------- adaptive (history)


@st.composite
def adaptive_case(draw):
    mn = draw(st.one_of(st.just(1.0), st.floats(1.0, 4.0)))
    ops = draw(
        st.lists(
            st.one_of(
                st.tuples(st.just("ok")),
                st.tuples(st.just("fail")),
                st.tuples(st.just("tick"), st.sampled_from([1, 2, 4, 16, 64, 256])),
                st.tuples(st.just("tick_window"), st.sampled_from([-1, 0, 1])),
                # (fallback value, remaining_s in the context: adaptive() scales its fallback, the deadline is the runner's business)
                st.tuples(st.just("call"), st.one_of(st.sampled_from([0.0, 0.5, 1.0, 1e300]), st.floats(0, 1e300)), st.sampled_from([None, None, 0.0, 0.125, 0.5, 2.0])),
                st.tuples(st.just("set_bounds"), st.sampled_from([1.0, 1.5, 3.0]), st.sampled_from([0.0, 1.0, 2.5])),  # (min, max - min) assigned on the live object
                st.tuples(st.just("set_target"), st.sampled_from([1.0, 0.9, 0.5, 0.1])),
            ),
            min_size=1,
            max_size=40,
        )
    )
    return {
        "window": draw(st.sampled_from([1, 16, 64, 256])),
        "target": draw(st.one_of(st.sampled_from([1.0, 0.9, 0.5, 0.01]), st.floats(0.01, 1.0))),
        "min": mn,
        "max": mn + draw(st.one_of(st.just(0.0), st.floats(0.0, 6.0))),
        "ops": [list(o) for o in ops],
    }


def check_adaptive(case: dict) -> Verdict:
    v = Verdict()
    now = [1000.0]
    w = case["window"] / 64
    fbv = [1.0]
    try:
        a = S.adaptive(
            lambda ctx: fbv[0],
            window_s=w,
            target_success=case["target"],
            min_multiplier=case["min"],
            max_multiplier=case["max"],
            clock=lambda: now[0],
        )
    except Exception as x:  # noqa: BLE001
        v.fail(f"C18:adaptive:construct:{type(x).__name__}", f"adaptive({case}) raised {x!r}")
        return v
    events: list = []
    last_event_t = None
    ctx = BackoffContext(1, Classification(ErrorClass.TRANSIENT), None, None, "exception")
    ncalls = 0
    scaled = False
    for op in case["ops"]:
        try:
            if op[0] == "ok":
                a.record_success()
                events.append((now[0], True))
                last_event_t = now[0]
            elif op[0] == "fail":
                a.record_failure(ErrorClass.TRANSIENT)
                events.append((now[0], False))
                last_event_t = now[0]
            elif op[0] == "set_bounds":
                a.min_multiplier = op[1]
                a.max_multiplier = op[1] + op[2]
                case = {**case, "min": op[1], "max": op[1] + op[2]}
            elif op[0] == "set_target":
                a.target_success = op[1]
                case = {**case, "target": op[1]}
            elif op[0] == "tick":
                now[0] += op[1] / 64
            elif op[0] == "tick_window":
                # move to exactly window (+/- one tick) after the oldest live event
                live = [t for (t, _) in events if now[0] - t < w]
                if live:
                    tgt = live[0] + w + op[1] / 64
                    if tgt > now[0]:
                        now[0] = tgt
            else:
                fb = op[1]
                fbv[0] = fb
                ncalls += 1
                rem = op[2] if len(op) > 2 else None
                out = a(ctx if rem is None else BackoffContext(1, Classification(ErrorClass.TRANSIENT), None, rem, "exception"))
                if rem is not None:
                    v.tag("adaptive-with-remaining")
                live = [ok for (t, ok) in events if now[0] - t < w]
                lo, hi = fb * case["min"], fb * case["max"]
                if not (lo * (1 - REL) <= out <= hi * (1 + REL)) or out < fb * (1 - REL) or math.isnan(out):
                    v.fail("C18:adaptive:envelope", f"adaptive {case}: fallback {fb!r} -> {out!r} outside [{lo!r}, {hi!r}]")
                rate = (sum(1 for o in live if not o) / len(live)) if live else 0.0
                if rate <= 1.0 - case["target"]:
                    if out != fb * case["min"]:
                        v.fail("C18:adaptive:baseline", f"adaptive {case}: failure rate {rate} within target but {out!r} != fallback*min {fb * case['min']!r}")
                elif out > lo:
                    scaled = True
        except Exception as x:  # noqa: BLE001
            v.fail(f"C18:adaptive:raises:{type(x).__name__}", f"adaptive {case}: op {op} raised {x!r}")
            break
    v.nontrivial = ncalls > 0 and len(events) >= 2
    v.tag("adaptive-scaled" if scaled else "adaptive-baseline")
    return v


# ---------------------------------------------------------------------------- exhaustive attempt sweep


def enum_attempts(tier: str):
    top = 2200 if tier == "quick" else 12000
    params = [(0.25, 30.0), (0.25, 20.0), (0.0, 0.0), (5e-324, 1e10), (1.0, 1.7976931348623157e308), (1e300, 1e308), (0.015625, 0.015625)]
    for fn in ("decorrelated_jitter", "equal_jitter", "token_backoff"):
        for base, mx in params:
            for r in (0.0, 0.5, 1.0 - 2.0**-53):
                for attempt in range(1, top + 1):
                    yield {"fn": fn, "base": base, "max": mx, "attempt": attempt, "prev": None if attempt % 2 else mx, "r": r, "klass": "TRANSIENT", "defaults": False}


# ---------------------------------------------------------------------------- adaptive() shared by threads


def enum_adaptive_threads(tier: str):
    import itertools

    ops = ["call", "ok", "fail"]
    pres = ([], ["ok", "fail"]) if tier == "quick" else ([], ["fail"], ["ok", "fail"], ["fail", "fail", "ok"])
    for pre in pres:
        for a, b in itertools.product(ops, repeat=2):
            if tier == "quick" and "call" not in (a, b):
                continue
            # all schedules (thorough) / all schedules with <= 3 pre-emptions (quick)
            yield {"pre": pre, "program": [[a], [b]], "max_preemptions": None if tier == "thorough" else 3, "max_schedules": 30000 if tier == "thorough" else 2500}
        if tier == "thorough":
            for a, b, c in itertools.product(ops, repeat=3):
                yield {"pre": pre, "program": [[a, b], [c]], "max_preemptions": 3, "max_schedules": 6000}


def check_adaptive_threads(case: dict) -> Verdict:
    """One adaptive() strategy shared by threads (a module-level policy used from a pool): whatever the
    interleaving, calls return one of the values a sequential order gives and nothing raises."""
    import itertools

    from ..sched import Deadlock, LockFactory, explore

    v = Verdict()
    files = {S.__file__}
    ctx = BackoffContext(1, Classification(ErrorClass.TRANSIENT), None, None, "exception")

    def build():
        factory = LockFactory()
        bootstrap.set_sched(factory)
        try:
            a = S.adaptive(lambda c: 1.0, window_s=60.0, target_success=0.5, min_multiplier=1.0, max_multiplier=5.0, clock=lambda: 100.0)
        finally:
            bootstrap.set_sched(None)
        for op in case["pre"]:
            (a.record_success if op == "ok" else a.record_failure)()
        return factory, a

    def do(a, op):
        if op == "call":
            return ("call", a(ctx))
        if op == "ok":
            a.record_success()
            return ("ok",)
        a.record_failure(ErrorClass.TRANSIENT)
        return ("fail",)

    program = case["program"]
    allowed = set()
    slots = [i for i, ops in enumerate(program) for _ in ops]
    for perm in set(itertools.permutations(slots)):
        _, a = build()
        idx = [0] * len(program)
        res = [[] for _ in program]
        for t in perm:
            res[t].append(do(a, program[t][idx[t]]))
            idx[t] += 1
        allowed.add((tuple(("ok", tuple(r)) for r in res), a(ctx)))
    holder = {}

    def make():
        factory, a = build()
        holder["a"] = a
        return factory, [(lambda ops=ops, a=a: tuple(do(a, o) for o in ops)) for ops in program], lambda: a(ctx)

    n = 0
    for choices, res, obs, s, err in explore(make, files, max_preemptions=case["max_preemptions"], max_schedules=case["max_schedules"]):
        n += 1
        if err is not None:
            v.fail("C18:adaptive:threads:" + ("deadlock" if isinstance(err, Deadlock) else "hang"), f"{case}: {err} under schedule {choices}")
            break
        if any(r[0] == "exc" for r in res):
            v.fail("C18:adaptive:threads:raises", f"adaptive() shared by threads, {case}: a thread raised {[r for r in res if r[0] == 'exc']} under schedule {choices}")
            break
        out = (tuple((r[0], r[1]) for r in res), obs)
        if out not in allowed:
            v.fail("C18:adaptive:threads:not-sequential", f"adaptive() shared by threads, {case}: outcome {out} under schedule {choices} matches no sequential order")
            break
    v.evals = max(1, n)
    v.nontrivial = True
    v.tag("adaptive-threads")
    return v


PROP = Property(
    id="C18",
    level="exploration",
    rule=(
        "Hypothesis-generated (strategy, base_s<=max_s over all finite floats, attempt in 1..1e6 incl. 1023/1024/1750/1751, "
        "prev, generated random draw r fed through random.uniform) plus an exhaustive sweep of attempt=1..N for 7 parameter "
        "pairs x 3 draws; retry_after_or over (hint, fallback, remaining, jitter) incl. NaN/inf; adaptive() over generated "
        "record/tick/call histories with boundary ages; and one adaptive() strategy shared by two threads (calls racing with "
        "record_success/record_failure) under every schedule of the harness-owned scheduler: nothing raises and every result equals "
        "a sequential order's. Non-trivial = attempt >= 64, or draw at an end of [0,1), or a clamp "
        "(max_s / remaining_s) active, or a non-finite hint/fallback, or an adaptive history with >=2 records and a call. "
        "Distinct = distinct canonical case."
    ),
    assumptions=[
        "random draws reach the strategies through random.uniform / random.random (dispatcher installed before import)",
        "envelope compared against exact rational cap with 1e-12 relative slack for pow/multiply rounding",
    ],
    streams=[
        Stream("jitter", check_jitter, strategy=jitter_case(), quick=24000, thorough=600000),
        Stream("attempt_sweep", check_jitter, enum=enum_attempts, quick=1, thorough=1, exhaustive=True),
        Stream("retry_after_or", check_rao, strategy=rao_case(), quick=16000, thorough=300000),
        Stream("adaptive", check_adaptive, strategy=adaptive_case(), quick=4000, thorough=60000),
        Stream("adaptive_threads", check_adaptive_threads, enum=enum_adaptive_threads, quick=1, thorough=1),
    ],
)
