"""C08 — every admitted call settles the breaker; no half-open probe slot is leaked."""
from __future__ import annotations

from hypothesis import strategies as st

from . import _common as C
from .. import bootstrap, gen, oracles
from redress import ErrorClass

from ..harness import Env, g, run_case
from ..runner import Property, Stream, Verdict

PROFILE = {
    "max_attempts": 3,
    "deadline": 0.15,
    "abort": 0.2,
    "handler": 0.3,
    "budget": 0.1,
    "special": 0.15,
    "special_kinds": ["abort", "kbd", "sysexit", "cancel", "genexit", "rexh", "copen"],
    "overshoot": 0.05,
    "p_retryable": 0.8,
    "max_dur": 4,
    "max_delay_ticks": 8,
}
ENTRIES = [f"{a}Policy{v}.{m}" for a in ("", "Async") for v in ("", ".noretry") for m in ("call", "execute")]
CALLBACKS = ["classifier", "result_classifier", "strategy", "handler", "sleeper", "on_attempt_start", "on_attempt_end", "before_sleep", "on_metric", "on_log", "abort_if"]
SYNC_FAULTS = ["CallbackFault", "KeyboardInterrupt", "SystemExit"]
THROWN = ["CancelledError", "KeyboardInterrupt", "SystemExit", "CallbackFault", "close"]


def settle_check(case: dict, env: Env, out: list, site: str, what: str) -> None:
    """Public-behaviour oracle: after the call, wait recovery_timeout_s and ask for admission."""
    spec = case["cfg"]["breaker"]
    cvs = oracles.views(case, env)
    cv = cvs[-1]
    brk = [e for e in cv.events if e[0] == "brk"]
    allows = [e for e in brk if e[1] == "allow"]
    if not allows or not allows[0][3][0]:
        return  # not admitted: nothing to settle
    records = [e for e in brk if e[1] != "allow"]
    bootstrap.set_clock(env.clock)
    try:
        env.clock.t += g(spec.get("recovery", 64 * 30))
        real = env.breaker._real
        _ = real.state  # a dashboard polling the breaker: reading the state must not take the probe slot
        d = real.allow()
        state = d.state.value
        admitted = d.allowed
        again = True
        state2 = None
        if admitted:
            # a second full cycle on the same breaker: that call succeeds, the breaker is tripped again by
            # `threshold` counted failures, recovery_timeout_s passes with no call outstanding -> admitted
            real.record_success()
            for _ in range(spec["threshold"]):
                real.record_failure(ErrorClass.TRANSIENT)
            env.clock.t += g(spec.get("recovery", 64 * 30))
            d2 = real.allow()
            again, state2 = d2.allowed, d2.state.value
            real.record_cancel()
    finally:
        bootstrap.set_clock(None)
    if not admitted:
        out.append((f"C08:probe-slot-leaked:{site}", f"{what}: after the call ended and recovery_timeout_s elapsed the next call is rejected (breaker {state}); records made: {[r[1] for r in records]}"))
    elif not again:
        out.append((f"C08:probe-slot-leaked-next-cycle:{site}", f"{what}: the call ended, a later call succeeded, the breaker was tripped again and recovery_timeout_s elapsed with no call outstanding, yet the next call is rejected (breaker {state2})"))
    elif not records:
        out.append((f"C08:not-settled:{site}", f"{what}: the admitted call ended without telling the breaker anything"))


def describe_end(env: Env) -> str:
    end = env.trace[-1]
    if end[0] != "call_end":
        return "?"
    if end[2] == "raise":
        return "raise:" + type(end[3]).__name__
    return end[2]


def check(case: dict) -> Verdict:
    v = Verdict()
    out: list = []
    entry = case["entry"]
    is_async = entry.startswith("Async")
    has_retry = ".noretry." not in entry
    if not has_retry:
        case = {**case, "cfg": {**case["cfg"], "result_classifier": False}}
    fam = f"{'async' if is_async else 'sync'}:{entry.split('.')[-1]}:{'retry' if has_retry else 'noretry'}"
    pre = case["cfg"]["breaker"].get("pre", "closed")
    # baseline run (also a termination kind of its own: value / exception / exhaustion / abort / cancellation raised by the op)
    base = run_case(case, entry)
    last = base.trace[-1]
    settle_check(case, base, out, f"{fam}:ends:{describe_end(base)}", f"{entry} [{pre}] baseline")
    term = describe_end(base)
    v.tag("term:" + term, "pre:" + pre, "entry:" + entry)
    nontrivial = pre != "closed" and term not in ("return",) and not term.startswith("raise:ScriptExc")
    # synchronous crash points: the j-th invocation of callback c raises
    for cb in CALLBACKS:
        n = base.inv.get(cb, 0)
        for j in range(n):
            for ft in SYNC_FAULTS + (["CancelledError"] if is_async else []) + (["ReturnsNone"] if cb == "classifier" else []):
                if cb in ("on_metric", "on_log", "before_sleep") and ft == "CallbackFault":
                    continue  # ordinary hook errors are C15's subject
                env = run_case(case, entry, faults={(cb, j): ft})
                v.evals += 1
                settle_check(case, env, out, f"{fam}:{cb}-raises-{ft}", f"{entry} [{pre}] {cb}#{j} raises {ft}")
                v.tag(f"site:{cb}")
                nontrivial = nontrivial or pre != "closed"
    # asynchronous crash points: throw into / close the coroutine at every suspension point
    if is_async:
        probe = run_case(case, entry, suspend=True)
        v.evals += 1
        settle_check(case, probe, out, f"{fam}:suspending-baseline:{describe_end(probe)}", f"{entry} [{pre}] suspending baseline")
        for k in range(probe.suspensions):
            tag = next((e[2] for e in probe.trace if e[0] == "suspend" and e[1] == k), "?")
            kind = "op" if tag.startswith("op") else ("sleep" if tag.startswith("sleep") else tag)
            for ft in THROWN:
                env = run_case(case, entry, suspend=True, inject=(k, ft))
                v.evals += 1
                settle_check(case, env, out, f"{fam}:throw-{ft}-at-{kind}", f"{entry} [{pre}] {ft} thrown at suspension {k} ({tag})")
                v.tag(f"suspension:{kind}")
                nontrivial = nontrivial or pre != "closed"
    v.violations = out
    v.nontrivial = nontrivial
    return v


@st.composite
def case_st(draw):
    case = draw(gen.retry_case(PROFILE))
    spec = {"threshold": draw(st.sampled_from([1, 2, 3])), "window": 640, "recovery": draw(st.sampled_from([16, 64])), "trip_on": ["TRANSIENT", "SERVER_ERROR", "UNKNOWN"]}
    spec["pre"] = draw(st.sampled_from(["closed", "half_open_ready", "half_open_ready", "probe_released"]))
    spec["falsy"] = draw(st.sampled_from([False, False, True]))  # a breaker subclass may have a truth value
    case["cfg"]["breaker"] = spec
    case["entry"] = draw(st.sampled_from(ENTRIES))
    for c in case["calls"]:
        for e in c["script"]:
            e["susp"] = draw(st.sampled_from([1, 1, 2]))
    return case


PROP = Property(
    id="C08",
    level="fault_enumeration",
    rule=(
        "Hypothesis picks (config, outcome script incl. KeyboardInterrupt/SystemExit/CancelledError/GeneratorExit/nested "
        "CircuitOpenError/RetryExhaustedError/AbortRetryError raised by the operation, abort poll index, handler decisions, "
        "entry point in {Policy, AsyncPolicy} x {call, execute} x {retry, no retry}, breaker closed, ready for its first probe, or "
        "half-open with the slot released by an aborted probe); for that case EVERY crash point is enumerated: the j-th invocation of each callback (classifier, result "
        "classifier, strategy, sleep handler, sleeper, abort_if, on_attempt_start/end, hooks) raising an ordinary exception / "
        "KeyboardInterrupt / SystemExit (/CancelledError), and for async entries CancelledError / KeyboardInterrupt / SystemExit "
        "/ an ordinary exception thrown into, or close() of, the coroutine at every suspension point (operation awaits and "
        "sleeps). Oracle (public behaviour): after the call returned or raised, advance the clock by recovery_timeout_s; the "
        "next allow() must be admitted, and the admitted call must have made >= 1 record. Non-trivial = breaker was half-open "
        "(this call the probe) and the call did not end by a plain value/exception. evaluations counts runs."
    ),
    streams=[Stream("crash_points", check, strategy=case_st(), quick=4000, thorough=120000)],
)
