"""C05 — backoff delay = the failure class's strategy output, sanitised and capped."""
from __future__ import annotations

from . import _common as C
from .. import gen, oracles
from ..runner import Property, Stream, Verdict

PROFILE = {
    "max_attempts": 7,
    "deadline": 0.5,
    "abort": 0.03,
    "handler": 0.3,
    "budget": 0.1,
    "special": 0.0,
    "overshoot": 0.2,
    "p_retryable": 0.9,
    "max_dur": 8,
    "max_delay_ticks": 32,
    "hostile_values": True,
    "multi_call": (1, 2),
    "attempt_timeout": 0.05,
    "offgrid_delays": 0.15,
    "handler_time": 0.3,
}


def check(case: dict) -> Verdict:
    v = Verdict()
    env, cvs = C.run(case)
    out: list = []
    for cv in cvs:
        info = oracles.c05(case, cv, out)
        if (info["retries"] >= 2 and len(info["classes"]) >= 2) or info["sanitised"]:
            v.nontrivial = True
        if info["sanitised"]:
            v.tag("sanitised-or-capped")
        v.tag(f"retries={min(info['retries'], 4)}")
    v.violations = out
    v.tag("entry:" + case["entry"])
    return v


PROP = Property(
    id="C05",
    level="exploration",
    rule=(
        "Hypothesis-generated strategy tables (any subset of classes, default present/absent, context-style / legacy "
        "3-argument / callable object), class sequences, return values incl. NaN, +/-inf, negatives, ints, 1e9, 1e300 and "
        "values above the remaining time, classifiers returning Classification objects with retry_after_s. Oracle = data-flow "
        "equalities between what each strategy saw/returned and what handler, before_sleep, sleeper, retry events (both "
        "sinks), timeline and next_sleep_s report. Non-trivial = >= 2 granted retries of >= 2 classes, or a value that had to "
        "be sanitised or capped."
    ),
    streams=[Stream("dataflow", check, strategy=C.with_entry(gen.retry_case(PROFILE), C.WIDE_ENTRIES), quick=14000, thorough=300000)],
)
