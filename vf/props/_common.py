"""Shared plumbing for the E1-based property modules."""
from __future__ import annotations

from hypothesis import strategies as st

from .. import bootstrap

bootstrap.install()

from .. import gen, oracles  # noqa: E402
from ..harness import Env, HarnessError, run_case  # noqa: E402
from ..runner import Verdict  # noqa: E402

RETRY_ENTRIES = [
    f"{a}{api}.{mode}"
    for a in ("", "Async")
    for api in ("Retry", "Policy", "RetryPolicy")
    for mode in ("call", "execute")
]
# the rarely used doors as well: from_config constructors, context managers, the @retry decorator
SUGAR_ENTRIES = [
    f"{a}{api}.{mode}" for a in ("", "Async") for api in ("Retry.from_config", "RetryPolicy.from_config") for mode in ("call", "execute")
] + [f"{a}{api}.context.call" for a in ("", "Async") for api in ("Retry", "Policy", "RetryPolicy")] + ["decorator.call", "adecorator.call"]
WIDE_ENTRIES = RETRY_ENTRIES * 2 + SUGAR_ENTRIES  # plain entry points keep about 60 % of the weight
CALL_ENTRIES = [e for e in RETRY_ENTRIES if e.endswith(".call")]
EXECUTE_ENTRIES = [e for e in RETRY_ENTRIES if e.endswith(".execute")]


def with_entry(case_strategy, entries):
    return st.tuples(case_strategy, st.sampled_from(entries)).map(lambda ce: {**ce[0], "entry": ce[1]})


def run(case: dict, entry: str | None = None, **kw):
    env = run_case(case, entry or case["entry"], **kw)
    return env, oracles.views(case, env)


def projection(cv) -> list:
    """Behaviour of one call with times relative to its start (for fresh-object differentials)."""
    out = []
    b = cv.begin
    for e in cv.events:
        k = e[0]
        if k == "op":
            out.append(("op", e[1], e[2] - b))
        elif k == "op_end":
            out.append(("op_end", e[1], e[2] - b, e[3]))
        elif k == "sleep":
            out.append(("sleep", e[1], repr(e[2]), e[3] - b))
        elif k == "strat":
            out.append(("strat",) + tuple(repr(x) for x in e[1:10]))
        elif k in ("metric", "log"):
            out.append((k, e[1], repr(e[2:])))
        elif k == "poll":
            out.append(("poll", e[1], e[2]))
        elif k == "handler":
            out.append(("handler", e[1], e[2], repr(e[3]), e[4]))
        elif k == "before":
            out.append(("before", e[1], e[2], repr(e[3])))
        elif k == "budget":
            out.append(("budget", e[1], e[2] - b))
        elif k == "brk":
            out.append(("brk", e[1], e[2], repr(e[3])))
        elif k in ("att_start",):
            out.append((k, e[1], e[2] - b))
        elif k == "att_end":
            out.append((k,) + tuple(repr(x) for x in e[1:6]) + (e[6] - b,))
        elif k in ("args_mangled", "strat_args_clobbered"):
            out.append(tuple(repr(x) for x in e))
        elif k in ("classify", "rclassify", "strat_rec", "fault"):
            out.append(tuple(repr(x) for x in e))
    f = dict(cv.final)
    f.pop("elapsed_s", None)
    tl = f.pop("timeline", None)
    if tl is not None:
        f["timeline"] = [(ev.event, ev.attempt, repr(ev.sleep_s), str(ev.error_class), str(ev.stop_reason), ev.cause) for ev in tl.events]
    out.append(("final", repr(sorted(f.items(), key=lambda kv: kv[0]))))
    return out


def reason_tag(cv) -> str:
    end = oracles.ending(cv)
    if end["kind"] == "fail":
        return "stop:" + str(oracles.reported_reason(cv))
    return "end:" + end["kind"] + (":" + end.get("type", "") if end["kind"] == "propagate" else "")


RECONF_ENTRIES = [e for e in RETRY_ENTRIES] + ["Retry.from_config.call", "AsyncRetryPolicy.from_config.execute"]


def reconfigured_case(profile: dict, keys: list):
    """Two calls on one policy object; before the second the caller edits public attributes."""

    @st.composite
    def build(draw):
        p = dict(profile)
        p["multi_call"] = (2, 2)
        p["budget"] = 0.0
        case = draw(gen.retry_case(p))
        spec: dict = {}
        for k in draw(st.lists(st.sampled_from(keys), min_size=1, max_size=len(keys), unique=True)):
            if k == "deadline":
                spec[k] = draw(st.one_of(st.integers(1, 64), st.integers(1, 512)))
            elif k == "max_attempts":
                spec[k] = draw(st.sampled_from([1, 2, 3, 4, 6, 8]))
            elif k == "max_unknown":
                spec[k] = draw(st.sampled_from([None, 0, 1, 3]))
            elif k == "per_class":
                spec[k] = draw(st.dictionaries(st.sampled_from(gen.RETRYABLE), st.sampled_from([0, 1, 2, 3]), max_size=2))
        case["calls"][1]["reconfigure"] = spec
        case["calls"][1].pop("advance", None)
        case["entry"] = draw(st.sampled_from(RECONF_ENTRIES))
        return case

    return build()


def check_reconfigured(case: dict, prefix: str) -> Verdict:
    """The second call must behave exactly like the same call on a fresh object built with the new settings."""
    v = Verdict()
    env, cvs = run(case)
    spec = case["calls"][1]["reconfigure"]
    cfg2 = dict(case["cfg"])
    for k, val in spec.items():
        cfg2[k] = val
    only = {k: x for k, x in case["calls"][1].items() if k not in ("reconfigure", "advance")}
    if only.get("handler") is None and any(c.get("handler") is not None for c in case["calls"]):
        only["handler"] = []
    fresh = {**case, "cfg": cfg2, "calls": [only]}
    env2, cvs2 = run(fresh)
    v.evals += 1
    a, b = projection(cvs[1]), projection(cvs2[0])
    if a != b:
        i = next((i for i, (x, y) in enumerate(zip(a, b)) if x != y), min(len(a), len(b)))
        v.fail(f"{prefix}:reconfigured:{'+'.join(sorted(spec))}", f"{case['entry']}: after the caller set {spec} on a used policy object the next call differs from a fresh object with those settings at event {i}: {a[i:i+2]} vs {b[i:i+2]}")
    v.nontrivial = any(oracles.failed(case, att) for att in cvs[0].atts) and any(oracles.failed(case, att) for att in cvs[1].atts)
    v.tag("reconfigured:" + "+".join(sorted(spec)), "entry:" + case["entry"])
    return v


def midflight_case(profile: dict, keys: list, entries: list):
    """One call during which (inside the k-th back-off sleep) the caller rebinds public attributes of the policy."""

    @st.composite
    def build(draw):
        p = dict(profile)
        p.pop("multi_call", None)
        p["budget"] = 0.0
        p["always_fail"] = True
        case = draw(gen.retry_case(p))
        spec: dict = {}
        for k in draw(st.lists(st.sampled_from(keys), min_size=1, max_size=2, unique=True)):
            if k == "deadline":
                spec[k] = draw(st.one_of(st.integers(1, 32), st.integers(1, 256)))
            elif k == "max_attempts":
                spec[k] = draw(st.sampled_from([1, 2, 3, 5, 8, 12]))
            elif k == "max_unknown":
                spec[k] = draw(st.sampled_from([0, 0, 1, 2]))
            elif k == "per_class":
                spec[k] = draw(st.dictionaries(st.sampled_from(gen.RETRYABLE), st.sampled_from([0, 0, 1, 2]), min_size=1, max_size=3))
        case["calls"][0]["midflight"] = {"at_sleep": draw(st.sampled_from([0, 0, 1, 2])), "set": spec}
        case["entry"] = draw(st.sampled_from(entries))
        return case

    return build()
