"""Shared plumbing for the E1-based property modules."""
from __future__ import annotations

from hypothesis import strategies as st

from .. import bootstrap

bootstrap.install()

from .. import gen, oracles  # noqa: E402
from ..harness import Env, HarnessError, run_case  # noqa: E402
from ..runner import Verdict  # noqa: E402

RETRY_ENTRIES = [
    f"{a}{api}.{mode}"
    for a in ("", "Async")
    for api in ("Retry", "Policy", "RetryPolicy")
    for mode in ("call", "execute")
]
# the rarely used doors as well: from_config constructors, context managers, the @retry decorator
SUGAR_ENTRIES = [
    f"{a}{api}.{mode}" for a in ("", "Async") for api in ("Retry.from_config", "RetryPolicy.from_config") for mode in ("call", "execute")
] + [f"{a}{api}.context.call" for a in ("", "Async") for api in ("Retry", "Policy", "RetryPolicy")] + ["decorator.call", "adecorator.call"]
WIDE_ENTRIES = RETRY_ENTRIES * 2 + SUGAR_ENTRIES  # plain entry points keep about 60 % of the weight
CALL_ENTRIES = [e for e in RETRY_ENTRIES if e.endswith(".call")]
EXECUTE_ENTRIES = [e for e in RETRY_ENTRIES if e.endswith(".execute")]


def with_entry(case_strategy, entries):
    return st.tuples(case_strategy, st.sampled_from(entries)).map(lambda ce: {**ce[0], "entry": ce[1]})


def run(case: dict, entry: str | None = None, **kw):
    env = run_case(case, entry or case["entry"], **kw)
    return env, oracles.views(case, env)


def projection(cv) -> list:
    """Behaviour of one call with times relative to its start (for fresh-object differentials)."""
    out = []
    b = cv.begin
    for e in cv.events:
        k = e[0]
        if k == "op":
            out.append(("op", e[1], e[2] - b))
        elif k == "op_end":
            out.append(("op_end", e[1], e[2] - b, e[3]))
        elif k == "sleep":
            out.append(("sleep", e[1], repr(e[2]), e[3] - b))
        elif k == "strat":
            out.append(("strat",) + tuple(repr(x) for x in e[1:10]))
        elif k in ("metric", "log"):
            out.append((k, e[1], repr(e[2:])))
        elif k == "poll":
            out.append(("poll", e[1], e[2]))
        elif k == "handler":
            out.append(("handler", e[1], e[2], repr(e[3]), e[4]))
        elif k == "before":
            out.append(("before", e[1], e[2], repr(e[3])))
        elif k == "budget":
            out.append(("budget", e[1], e[2] - b))
        elif k == "brk":
            out.append(("brk", e[1], e[2], repr(e[3])))
        elif k in ("att_start",):
            out.append((k, e[1], e[2] - b))
        elif k == "att_end":
            out.append((k,) + tuple(repr(x) for x in e[1:6]) + (e[6] - b,))
        elif k in ("args_mangled", "strat_args_clobbered"):
            out.append(tuple(repr(x) for x in e))
        elif k in ("classify", "rclassify", "strat_rec", "fault"):
            out.append(tuple(repr(x) for x in e))
    f = dict(cv.final)
    f.pop("elapsed_s", None)
    tl = f.pop("timeline", None)
    if tl is not None:
        f["timeline"] = [(ev.event, ev.attempt, repr(ev.sleep_s), str(ev.error_class), str(ev.stop_reason), ev.cause) for ev in tl.events]
    out.append(("final", repr(sorted(f.items(), key=lambda kv: kv[0]))))
    return out


def reason_tag(cv) -> str:
    end = oracles.ending(cv)
    if end["kind"] == "fail":
        return "stop:" + str(oracles.reported_reason(cv))
    return "end:" + end["kind"] + (":" + end.get("type", "") if end["kind"] == "propagate" else "")
