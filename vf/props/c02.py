"""C02 — deadline envelope: no attempt starts and no sleep extends past deadline_s."""
from __future__ import annotations

from hypothesis import strategies as st

from . import _common as C
from .. import gen, oracles
from ..runner import Property, Stream, Verdict

PROFILE = {
    "max_attempts": 8,
    "deadline": 1.0,
    "deadline_aware": True,
    "abort": 0.05,
    "handler": 0.1,
    "budget": 0.05,
    "special": 0.0,
    "jumps": True,
    "overshoot": 0.6,
    "p_retryable": 0.9,
    "max_dur": 64,
    "multi_call": (1, 2),
    "classifier_time": 0.25,
    "record_failure_time": 0.3,
    "attempt_timeout": 0.1,
}


def check(case: dict) -> Verdict:
    v = Verdict()
    env, cvs = C.run(case)
    out: list = []
    tol = 2e-6 if case["cfg"].get("deadline_s") is not None else 0.0
    for cv in cvs:
        info = oracles.c02(case, cv, out, tol_s=tol)
        v.nontrivial = v.nontrivial or info["near"] or info["clamped"] or info["reason"] == "DEADLINE_EXCEEDED"
        if info["near"]:
            v.tag("action-within-1-tick-of-deadline")
        if info["clamped"]:
            v.tag("sleep-clamped")
        v.tag(C.reason_tag(cv))
    # wall-clock jumps must have no influence: same case without jumps gives the same behaviour
    if case.get("jumps"):
        plain = {k: x for k, x in case.items() if k != "jumps"}
        env2, cvs2 = C.run(plain)
        v.evals += 1
        for a, b in zip(cvs, cvs2):
            pa, pb = C.projection(a), C.projection(b)
            if pa != pb:
                i = next((i for i, (x, y) in enumerate(zip(pa, pb)) if x != y), min(len(pa), len(pb)))
                out.append(("C02:wall-clock-influence", f"behaviour changes with wall-clock jumps {case['jumps']} at event {i}: {pa[i:i+2]} vs {pb[i:i+2]}"))
        v.tag("wall-clock-jumps")
    v.violations = out
    v.tag("entry:" + case["entry"])
    return v


@st.composite
def offgrid_case(draw):
    """Arbitrary finite float timings; oracle uses a 2 microsecond tolerance (timedelta rounding)."""
    fl = st.floats(min_value=0.0, max_value=3.0, allow_nan=False)
    deadline = draw(st.floats(min_value=1e-3, max_value=8.0))
    n = draw(st.integers(1, 6))
    script = []
    for _ in range(n + 1):
        script.append({"kind": draw(st.sampled_from(["exc", "exc", "exc", "res", "ok"])), "klass": draw(st.sampled_from(gen.RETRYABLE[:4])), "dur_s": draw(st.one_of(fl, st.just(deadline), st.just(deadline / 2)))})
    vals = draw(st.lists(st.one_of(fl, st.just(deadline), st.sampled_from([float("inf"), float("nan"), -1.0, 1e9])), min_size=1, max_size=4))
    cfg = {"max_attempts": n, "deadline_s": deadline, "default": {"vals": vals, "style": "ctx"}, "max_unknown": None}
    call = {"script": script, "overshoot_s": draw(st.lists(st.one_of(st.just(0.0), st.floats(0.0, 1.0)), max_size=n))}
    return {"cfg": cfg, "calls": [call]}


PROP = Property(
    id="C02",
    level="exploration",
    rule=(
        "Hypothesis-generated timings on the k/64 s grid (exact comparison): deadlines 1/64..8 s, attempt durations and "
        "sleeper overshoots placed at deadline-2..deadline+2 ticks and anywhere, strategy outputs below/at/above the remaining "
        "time incl. NaN/inf, wall-clock jump patterns (metamorphic re-run without jumps must give the identical trace); plus an "
        "off-grid arbitrary-float stream with 2 us tolerance. Non-trivial = some attempt start / failure / wake-up within one "
        "tick of the deadline, or a strategy value above the remaining time (clamp active), or stop reason DEADLINE_EXCEEDED."
    ),
    assumptions=[
        "time advances only inside the operation and the sleeper (the two quantities the property quantifies over)",
        "off-grid stream: 2 microsecond tolerance because the library compares timedeltas rounded to 1 us",
    ],
    streams=[
        Stream("grid", check, strategy=C.with_entry(gen.retry_case(PROFILE), C.WIDE_ENTRIES), quick=12000, thorough=300000),
        Stream("offgrid", check, strategy=C.with_entry(offgrid_case(), C.RETRY_ENTRIES), quick=4000, thorough=100000),
        Stream("midflight", check, strategy=C.midflight_case(PROFILE, ["deadline"], C.RECONF_ENTRIES), quick=3000, thorough=60000),
        Stream("reconfigured", lambda case: C.check_reconfigured(case, "C02"), strategy=C.reconfigured_case(PROFILE, ["deadline"]), quick=3000, thorough=60000),
    ],
)
