"""C03 — retry exactly when permitted: no premature give-up, no wasted backoff."""
from __future__ import annotations

from . import _common as C
from .. import gen, oracles
from ..runner import Property, Stream, Verdict

PROFILE = {
    "max_attempts": 6,
    "deadline": 0.4,
    "deadline_aware": True,
    "abort": 0.25,
    "handler": 0.3,
    "budget": 0.4,
    "special": 0.02,
    "multi_call": (1, 2),
    "overshoot": 0.3,
    "p_retryable": 0.8,
    "max_dur": 24,
    "max_delay_ticks": 48,
    "attempt_timeout": 0.1,
    "handler_time": 0.3,
}


def check(case: dict) -> Verdict:
    v = Verdict()
    env, cvs = C.run(case)
    out: list = []
    budget = oracles.BudgetModel(case["cfg"].get("budget"))
    for cv in cvs:
        info = oracles.c03(case, cv, out, budget)
        if info["failures"] >= 1:
            v.nontrivial = True
        for h in info["H_sizes"][-1:]:
            v.tag(f"|H|={h}")
        for k in ("final_attempt_retryable", "budget", "abort", "handler", "deferred"):
            if info[k]:
                v.tag(k)
        v.tag(C.reason_tag(cv))
    v.violations = out
    v.tag("entry:" + case["entry"])
    return v


PROP = Property(
    id="C03",
    level="exploration",
    rule=(
        "Hypothesis-generated (config x outcome script x timings on the k/64 s grid x budget fill level/pre-aged grants x "
        "first-True abort poll index x sleep-handler decision sequence x 12 entry points, 1-2 calls sharing the budget). "
        "Oracle = spec-level reference model walked along the trace: at each failed attempt the set H of stop conditions "
        "that hold and whether the budget would refuse decide exactly what may follow. Non-trivial = a run with >= 1 "
        "classified failure. Distinct = distinct canonical (case, entry)."
    ),
    assumptions=["model and implementation arithmetic are both exact on the k/64 s grid"],
    streams=[
        Stream("model", check, strategy=C.with_entry(gen.retry_case(PROFILE), C.WIDE_ENTRIES), quick=16000, thorough=400000),
    ],
)
