"""C03 — retry exactly when permitted: no premature give-up, no wasted backoff."""
from __future__ import annotations

from hypothesis import strategies as st

from . import _common as C
from .. import gen, oracles
from ..runner import Property, Stream, Verdict

PROFILE = {
    "max_attempts": 6,
    "deadline": 0.4,
    "deadline_aware": True,
    "abort": 0.25,
    "handler": 0.3,
    "budget": 0.4,
    "special": 0.02,
    "multi_call": (1, 2),
    "overshoot": 0.3,
    "p_retryable": 0.8,
    "max_dur": 24,
    "max_delay_ticks": 48,
    "attempt_timeout": 0.1,
    "handler_time": 0.3,
    "falsy_components": 0.3,
}


@st.composite
def model_case(draw):
    case = draw(C.with_entry(gen.retry_case(PROFILE), C.WIDE_ENTRIES))
    case["string_answers"] = draw(st.sampled_from([False] * 9 + [True]))
    if gen.chance(draw, 0.04, "c03-zero-deadline"):
        case["cfg"]["deadline"] = 0  # a deadline of zero has passed as soon as the first attempt has failed
    if case["cfg"].get("budget") is not None and gen.chance(draw, 0.3, "c03-steal"):
        # the budget is shared: somebody else takes tokens while this run is between its failure and its own consume()
        for c in case["calls"]:
            c["steal"] = draw(st.lists(st.integers(0, 4), min_size=1, max_size=3, unique=True))
    return case


def check(case: dict) -> Verdict:
    v = Verdict()
    if case.get("string_answers") and case["entry"].endswith(".call") and "decorator" not in case["entry"]:
        case = {**case, "calls": [{**c, "handler": ["str:" + d for d in c["handler"]]} if c.get("handler") else c for c in case["calls"]]}
    env, cvs = C.run(case)
    out: list = []
    budget = oracles.BudgetModel(case["cfg"].get("budget"))
    for cv in cvs:
        info = oracles.c03(case, cv, out, budget)
        if info["failures"] >= 1:
            v.nontrivial = True
        for h in info["H_sizes"][-1:]:
            v.tag(f"|H|={h}")
        for k in ("final_attempt_retryable", "budget", "abort", "handler", "deferred", "stolen"):
            if info.get(k):
                v.tag(k)
        v.tag(C.reason_tag(cv))
    v.violations = out
    v.tag("entry:" + case["entry"])
    return v



GARBAGE = ["$none", "soon", "$list"]


@st.composite
def garbage_case(draw):
    p = dict(PROFILE)
    p["budget"] = 1.0
    p["abort"] = 0.0
    p["handler"] = 0.0
    p["always_fail"] = True
    p.pop("multi_call", None)
    case = draw(gen.retry_case(p))
    specs = list((case["cfg"].get("strategies") or {}).values()) + ([case["cfg"]["default"]] if case["cfg"].get("default") else [])
    for spec in specs:
        vals = list(spec["vals"])
        vals[draw(st.integers(0, len(vals) - 1))] = draw(st.sampled_from(GARBAGE))
        spec["vals"] = vals
        spec["style"] = "ctx"
    case["entry"] = draw(st.sampled_from(C.CALL_ENTRIES))
    return case


def check_garbage(case: dict) -> Verdict:
    """A strategy that returns something that is no number at all is the caller's bug and the run may die
    with the resulting TypeError - but not after a budget token was spent or a `retry` reported for a retry
    that never happens."""
    v = Verdict()
    case = {**case, "cfg": {**case["cfg"]}}
    env, cvs = C.run(_materialise(case))
    hit = False
    for cv in cvs:
        for a in cv.atts:
            strats = a.of("strat")
            if not strats:
                continue
            pos, ev = strats[0]
            raw = ev[8]
            if isinstance(raw, (int, float)) or type(raw).__name__ in ("Decimal", "Fraction"):
                continue
            hit = True
            after = a.ev[pos + 1 :]
            if any(e[0] == "budget" and e[1] for e in after):
                v.fail("C03:garbage-delay:budget-spent", f"strategy returned {raw!r} for attempt {a.n}: a budget token was spent although no retry can follow")
            if any(e[0] == "metric" and e[1] == "retry" for e in after):
                v.fail("C03:garbage-delay:retry-reported", f"strategy returned {raw!r} for attempt {a.n}: a `retry` was reported although no retry can follow")
            if any(e[0] == "sleep" for e in after) or a is not cv.atts[-1]:
                v.fail("C03:garbage-delay:work-continued", f"strategy returned {raw!r} for attempt {a.n} but the run went on")
    v.nontrivial = hit
    v.tag("garbage-delay-reached" if hit else "garbage-delay-not-reached")
    return v


def _materialise(case: dict) -> dict:
    def fix(vv):
        return [None if x == "$none" else ([1] if x == "$list" else x) for x in vv]

    cfg = dict(case["cfg"])
    if cfg.get("default"):
        cfg["default"] = {**cfg["default"], "vals": fix(cfg["default"]["vals"])}
    if cfg.get("strategies"):
        cfg["strategies"] = {k: {**sp, "vals": fix(sp["vals"])} for k, sp in cfg["strategies"].items()}
    return {**case, "cfg": cfg}


PROP = Property(
    id="C03",
    level="exploration",
    rule=(
        "Hypothesis-generated (config x outcome script x timings on the k/64 s grid x budget fill level/pre-aged grants x "
        "first-True abort poll index x sleep-handler decision sequence x 12 entry points, 1-2 calls sharing the budget). "
        "Oracle = spec-level reference model walked along the trace: at each failed attempt the set H of stop conditions "
        "that hold and whether the budget would refuse decide exactly what may follow. Non-trivial = a run with >= 1 "
        "classified failure. Distinct = distinct canonical (case, entry)."
    ),
    assumptions=["model and implementation arithmetic are both exact on the k/64 s grid"],
    streams=[
        Stream("model", check, strategy=model_case(), quick=16000, thorough=400000),
        Stream("reconfigured", lambda case: C.check_reconfigured(case, "C03"), strategy=C.reconfigured_case(PROFILE, ["deadline", "max_attempts", "max_unknown", "per_class"]), quick=3000, thorough=60000),
        Stream("garbage_delay", check_garbage, strategy=garbage_case(), quick=2000, thorough=40000),
    ],
)
