"""C10 — shared retry budget: at most max_retries retries per rolling window."""
from __future__ import annotations

import itertools

from hypothesis import strategies as st

from . import _common as C
from .. import bootstrap, gen, oracles
from ..harness import VClock, g
from ..models import BudgetWindowModel
from ..runner import Property, Stream, Verdict

from redress import Budget  # noqa: E402

# ---------------------------------------------------------------------------- (a) component histories


def op_st():
    return st.one_of(
        st.tuples(st.just("consume"), st.sampled_from([1, 1, 1, 1, 2, 3, 30, 63, 64, 65])),
        st.tuples(st.just("consume"), st.sampled_from([1, 1, 2, 1024, 1025, 65536, 65537, 70000, 200000])),
        st.tuples(st.just("remaining")),
        st.tuples(st.just("adv"), st.sampled_from([1, 1, 2, 4, 16])),
        st.tuples(st.just("adv_win"), st.sampled_from([-1, 0, 0, 1])),  # oldest live grant ages to window (+/- 1 tick)
        st.tuples(st.just("adv_win_f"), st.sampled_from([-1, 1, -500, 500, -(2**18), 2**18])),  # ... +/- ns .. ms (units of 2**-30 s)
        st.tuples(st.just("adv_fine"), st.sampled_from([1, 1000, 2**18])),
        st.tuples(st.just("consume_bad"), st.sampled_from([0, -1])),
        st.tuples(st.just("set_max"), st.sampled_from([0, 1, 2, 3, 5, 8, 70])),  # the owner retunes the shared budget at run time
    )


@st.composite
def history_case(draw, max_ops=60):
    return {
        "max": draw(st.sampled_from([0, 1, 2, 3, 4, 5, 1, 2, 3, 64, 65, 66, 130] * 6 + [1025, 70000, 200000])),
        "window": draw(st.sampled_from([1, 4, 16, 64])),
        "ops": [list(o) for o in draw(st.lists(op_st(), min_size=1, max_size=max_ops))],
    }


def check_component(case: dict) -> Verdict:
    v = Verdict()
    clock = VClock(None)
    bootstrap.set_clock(clock)
    refused_then_granted = False
    multi = False
    refused = False
    boundary = False
    FINE = 2**24  # model time unit 2**-30 s; exact in doubles

    def now_fine() -> int:
        return round((clock.t - clock.t0) * 2**30)

    try:
        real = Budget(max_retries=case["max"], window_s=g(case["window"]))
        m = BudgetWindowModel(case["max"], case["window"] * FINE)
        for i, op in enumerate(case["ops"]):
            t = now_fine()
            k = op[0]
            if k == "adv":
                clock.t += g(op[1])
                continue
            if k == "adv_fine":
                clock.t += op[1] / 2**30
                continue
            if k in ("adv_win", "adv_win_f"):
                live = m.live(t)
                if live:
                    target = live[0] + m.window + (op[1] * FINE if k == "adv_win" else op[1])
                    if target > t:
                        clock.t = clock.t0 + target / 2**30
                        boundary = True
                continue
            if k == "set_max":
                real.max_retries = op[1]
                m.max = op[1]
                continue
            if k == "consume_bad":
                try:
                    r = real.consume(op[1])
                    v.fail("C10:invalid-cost-accepted", f"consume({op[1]}) returned {r!r} instead of raising ValueError")
                except ValueError:
                    pass
                except Exception as x:  # noqa: BLE001
                    v.fail("C10:invalid-cost-error", f"consume({op[1]}) raised {type(x).__name__}")
                continue
            if k == "consume":
                got = real.consume(op[1])
                want = m.consume(t, op[1])
                if op[1] > 1:
                    multi = True
                if not want:
                    refused = True
                elif refused:
                    refused_then_granted = True
            else:
                got = real.remaining()
                want = m.remaining(t)
            if got != want:
                v.fail(f"C10:budget-{k}", f"Budget(max_retries={case['max']}, window={case['window']} ticks): op #{i} {op} at t={t}: implementation {got!r}, model {want!r}; grants so far {m.grants}")
                break
        retuned = any(o[0] == "set_max" for o in case["ops"])  # the bound is stated for a fixed max_retries
        if not v.violations and not retuned and not m.window_bound_ok():
            v.fail("C10:window-bound", f"more than {case['max']} grants inside one window: {m.grants}")
    finally:
        bootstrap.set_clock(None)
    v.nontrivial = refused_then_granted or (multi and refused) or boundary
    if refused_then_granted:
        v.tag("refusal-then-grant")
    if boundary:
        v.tag("boundary-age")
    if multi:
        v.tag("cost>1")
    return v


def enum_small(tier: str):
    alphabet = [["consume", 1], ["consume", 2], ["remaining"], ["adv", 1], ["adv_win", 0], ["adv_win", -1]]
    L = 6 if tier == "quick" else 7
    for mx, w in ((1, 2), (2, 2), (2, 3), (3, 1)):
        for n in range(1, L + 1):
            for ops in itertools.product(alphabet, repeat=n):
                yield {"max": mx, "window": w, "ops": [list(o) for o in ops]}


# ---------------------------------------------------------------------------- (b) several policies sharing one budget

PROFILE = {
    "max_attempts": 4,
    "deadline": 0.1,
    "abort": 0.1,
    "handler": 0.1,
    "budget": 1.0,
    "special": 0.0,
    "overshoot": 0.1,
    "p_retryable": 0.95,
    "max_dur": 6,
    "max_delay_ticks": 8,
    "multi_call": (2, 6),
    "always_fail": True,
    "falsy_components": 0.3,
}


@st.composite
def shared_case(draw):
    case = draw(gen.retry_case(PROFILE))
    # every door into the retry loop can be handed the same Budget: constructors, from_config, context
    # managers and the @retry decorator, sync and async
    from .c12 import ENTRIES as ALL_ENTRIES

    case["entries"] = draw(st.lists(st.sampled_from(C.RETRY_ENTRIES + ALL_ENTRIES), min_size=2, max_size=3))
    if gen.chance(draw, 0.3, "c10-late"):
        case["cfg"]["budget"]["late"] = True  # handed to the policy objects by attribute assignment after construction
    return case


def check_shared(case: dict) -> Verdict:
    v = Verdict()
    env, cvs = C.run(case, case["entries"][0])
    spec = case["cfg"]["budget"]
    m = BudgetWindowModel(spec["max"], spec["window"])
    m.grants = sorted(-a for a in (spec.get("prefill") or []))
    refused = refused_then_granted = False
    policies_consuming = set()
    for cv in cvs:
        for a in cv.atts:
            for idx, e in enumerate(a.ev):
                if e[0] != "budget":
                    continue
                _, granted, t, cost = e
                want = m.consume(t, cost)
                if granted != want:
                    v.fail(
                        "C10:shared:" + ("refused-with-capacity" if want else "granted-over-capacity"),
                        f"call #{cv.j} attempt {a.n}: budget.consume at t={t} returned {granted}, window model says {want} (max {spec['max']}, window {spec['window']}, grants {m.grants})",
                    )
                    if granted:
                        m._g.append((t, 1))
                if granted:
                    policies_consuming.add(cv.j % len(case["entries"]))
                    if refused:
                        refused_then_granted = True
                else:
                    refused = True
                rest = a.ev[idx + 1 :]
                retry_next = any(x[0] == "metric" and x[1] == "retry" for x in rest)
                exhausted_next = any(x[0] == "metric" and x[1] == "budget_exhausted" for x in rest)
                if granted and exhausted_next:
                    v.fail("C10:shared:exhausted-after-grant", f"call #{cv.j} attempt {a.n}: token granted but budget_exhausted reported")
                if not granted and retry_next:
                    v.fail("C10:shared:retry-after-refusal", f"call #{cv.j} attempt {a.n}: budget refused but a retry was reported")
            if any(x[0] == "metric" and x[1] == "budget_exhausted" for x in a.ev) and not any(x[0] == "budget" and not x[1] for x in a.ev):
                v.fail("C10:shared:exhausted-without-refusal", f"call #{cv.j} attempt {a.n}: budget_exhausted reported but consume() never refused")
            if any(x[0] == "metric" and x[1] == "retry" for x in a.ev) and not any(x[0] == "budget" and x[1] for x in a.ev):
                v.fail("C10:shared:retry-without-token", f"call #{cv.j} attempt {a.n}: retry reported without a granted token")
    if not m.window_bound_ok():
        v.fail("C10:shared:window-bound", f"more than {spec['max']} retries granted inside one window of {spec['window']} ticks: {m.grants}")
    v.nontrivial = refused_then_granted or len(policies_consuming) >= 2
    if refused_then_granted:
        v.tag("refusal-then-grant")
    v.tag(f"policies-consuming={len(policies_consuming)}")
    return v


PROP = Property(
    id="C10",
    level="exploration",
    rule=(
        "(a) component: model-based histories of consume(cost 1..3)/remaining()/clock advances incl. a symbolic advance that "
        "ages the oldest live grant to exactly window_s +/- 1 tick, sizes 0..5 and 64..130 (bulk costs 30..65), windows 1..64 ticks; every return value equals an "
        "independent window model, and after the history the sliding-window bound (#grants in (g-window, g] <= max for every "
        "grant g) holds; invalid costs must raise ValueError; plus exhaustive enumeration of all histories up to length 6/7 "
        "over a 6-letter alphabet for 4 (max, window) pairs. (b) 2-3 different policies (sync and async entry points) sharing one "
        "pre-filled/pre-aged Budget make 2-6 failing calls with clock advances: every consume() result must match the model, "
        "budget_exhausted only after a refusal, retry only after a grant, window bound over all grants. Non-trivial = a "
        "refusal followed later by a grant (capacity returned by ageing), or cost>1 with a refusal, or a boundary-age advance, "
        "or >= 2 policies consuming."
    ),
    streams=[
        Stream("component", check_component, strategy=lambda tier: history_case(60 if tier == "quick" else 200), quick=16000, thorough=400000),
        Stream("small_histories", check_component, enum=enum_small, quick=1, thorough=1, exhaustive=True),
        Stream("shared", check_shared, strategy=shared_case(), quick=8000, thorough=200000),
    ],
)
