"""C15 — observability hooks can never alter control flow."""
from __future__ import annotations

from hypothesis import strategies as st

from . import _common as C
from .. import gen, oracles
from ..harness import run_case
from ..runner import Property, Stream, Verdict

PROFILE = {
    "max_attempts": 4,
    "deadline": 0.2,
    "abort": 0.15,
    "handler": 0.25,
    "budget": 0.2,
    "special": 0.03,
    "overshoot": 0.1,
    "p_retryable": 0.85,
    "max_dur": 6,
    "max_delay_ticks": 12,
    "placements": True,
}
HOOKS = {"on_metric": "metric", "on_log": "log", "before_sleep": "before"}
FAULTS = [
    "ValueError", "RuntimeError", "KeyError", "StopIteration", "AbortRetryError", "RetryExhaustedError", "CircuitOpenError", "HookFault",
    "TimeoutError", "MemoryError", "RecursionError", "OSError", "ZeroDivisionError", "AttributeError", "TypeError", "LookupError",
    "NotImplementedError", "UnicodeError", "ImportError", "StopAsyncIteration", "UserWarning", "BufferError", "EOFError",
    "ConnectionResetError", "ExceptionGroup", "InvalidStateError",
]  # every one derives from Exception
BREAKER_ENTRIES = ["Policy.call", "Policy.execute", "AsyncPolicy.call", "AsyncPolicy.execute", "Policy.noretry.call", "AsyncPolicy.noretry.execute"]


def observable(case, env):
    cvs = oracles.views(case, env)
    return [[x for x in C.projection(cv) if x[0] != "'fault'"] for cv in cvs]


def check(case: dict) -> Verdict:
    v = Verdict()
    out: list = []
    entry = case["entry"]
    if ".noretry." in entry:
        case = {**case, "cfg": {**case["cfg"], "result_classifier": False}}
    import warnings

    ctx = warnings.catch_warnings()
    ctx.__enter__()
    try:
        if case.get("warnings_as_errors"):
            warnings.simplefilter("error")  # python -W error / pytest filterwarnings=error
        return _check(case, entry, v, out)
    finally:
        ctx.__exit__(None, None, None)


def _check(case, entry, v, out):
    base = run_case(case, entry)
    want = observable(case, base)
    nfaulted = 0
    rot = case.get("rot", 0)
    for hook in HOOKS:
        n = base.inv.get(hook, 0)
        sites = [(hook, j) for j in range(n)] + ([(hook, "always")] if n else [])
        for site in sites:
            # every site gets two exception types (rotating through the list), always-raising gets one more
            width = 5 if site[1] == "always" else 2
            picks = [FAULTS[(rot + (site[1] if isinstance(site[1], int) else 7) * 2 + d) % len(FAULTS)] for d in range(width)]
            for ft in picks:
                env = run_case(case, entry, faults={site: ft})
                v.evals += 1
                nfaulted += 1
                got = observable(case, env)
                if got != want:
                    j = next((i for i, (a, b) in enumerate(zip(want, got)) if a != b), 0)
                    a, b = want[j] if j < len(want) else [], got[j] if j < len(got) else []
                    i = next((i for i, (x, y) in enumerate(zip(a, b)) if x != y), min(len(a), len(b)))
                    out.append(
                        (
                            f"C15:{hook}-raising-changes-run:{_fam(entry)}",
                            f"{entry}: {hook}#{site[1]} raising {ft} changes the run at event {i}: {a[i:i+2]} vs {b[i:i+2]} (lengths {len(a)}/{len(b)})",
                        )
                    )
                v.tag(f"hook:{hook}")
    last_inv = sum(base.inv.get(h, 0) for h in HOOKS)
    v.nontrivial = nfaulted > 0 and last_inv >= 3
    v.violations = out
    v.tag("entry:" + entry, f"hook-invocations={min(last_inv, 12)}")
    if case["placement"].get("log", True) is False or case["placement"].get("metric", True) is False:
        v.tag("only-one-of-on_metric/on_log")
    if case["cfg"].get("operation", "op") is None:
        v.tag("no-operation-name")
    return v


def _fam(entry: str) -> str:
    return ("async:" if entry.startswith("Async") else "sync:") + entry.replace("Async", "")


@st.composite
def case_st(draw):
    case = draw(gen.retry_case(PROFILE))
    pl = case.get("placement") or {}
    if pl.get("before") == "none":
        pl["before"] = "call"
    case["placement"] = pl
    case["rot"] = draw(st.sampled_from(list(range(len(FAULTS)))))
    case["warnings_as_errors"] = gen.chance(draw, 0.3, "c15-werror")
    if gen.chance(draw, 0.35, "c15-breaker"):
        spec = draw(gen.breaker_spec())
        if spec.get("trip_on") != [] and gen.chance(draw, 0.5, "c15-pre"):
            spec["pre"] = "half_open_ready"
        case["cfg"]["breaker"] = spec
        case["entry"] = draw(st.sampled_from(BREAKER_ENTRIES))
        if ".noretry." in case["entry"]:
            case["placement"] = {"attempt_hooks": "call"}
    else:
        case["entry"] = draw(st.sampled_from(C.RETRY_ENTRIES + ["Retry.context.call", "adecorator.call"]))
    if gen.chance(draw, 0.3, "c15-timeline"):
        case["placement"]["timeline"] = False
    # callers that install only one of the two observability hooks and / or name no operation (fast paths that
    # exist only for such calls must isolate the remaining hook just the same)
    if gen.chance(draw, 0.3, "c15-one-hook"):
        case["placement"][draw(st.sampled_from(["log", "metric"]))] = False
    if gen.chance(draw, 0.3, "c15-no-opname"):
        case["cfg"]["operation"] = None
    return case


def enum_long_runs(tier: str):
    """A broken exporter that fails on every one of more than a thousand events of one run."""
    for entry in ("Retry.execute", "AsyncRetry.execute", "Policy.execute", "Retry.call"):
        for n in (1001, 1100) if tier == "quick" else (1001, 1100, 2100):
            for hook in ("on_metric", "on_log"):
                yield {
                    "cfg": {"max_attempts": n, "max_unknown": None, "default": {"vals": [0.0], "style": "ctx"}},
                    "calls": [{"script": [{"dur": 0, "kind": "exc", "klass": "TRANSIENT"}, {"dur": 0, "kind": "res", "klass": "RATE_LIMIT"}], "cycle": True}],
                    "placement": {"attempt_hooks": "none", "before": "none"},
                    "entry": entry,
                    "always": hook,
                }


def check_long_run(case: dict) -> Verdict:
    v = Verdict()
    base = run_case(case, case["entry"])
    want = observable(case, base)
    env = run_case(case, case["entry"], faults={(case["always"], "always"): "RuntimeError"})
    v.evals += 1
    got = observable(case, env)
    if got != want:
        a, b = want[0], got[0]
        i = next((i for i, (x, y) in enumerate(zip(a, b)) if x != y), min(len(a), len(b)))
        v.fail(f"C15:long-run:{case['always']}-always-raising", f"{case['entry']} with {case['cfg']['max_attempts']} attempts and {case['always']} raising on every event: run differs at event {i} of {len(a)}/{len(b)}: {str(a[i:i+1])[:300]} vs {str(b[i:i+1])[:300]}")
    v.nontrivial = True
    v.tag("long-run")
    return v


PROP = Property(
    id="C15",
    level="fault_enumeration",
    rule=(
        "For each Hypothesis-generated case the run with silent hooks fixes how often on_metric, on_log and before_sleep "
        "(sync / async / awaitable) are invoked; faults are then enumerated: hook h raises at invocation j for EVERY j, and at "
        "every invocation ('always'), with two (five for 'always') exception types per site rotating through 26 Exception "
        "subclasses (ValueError ... MemoryError, RecursionError, ExceptionGroup, StopAsyncIteration, warnings, library errors); sync and "
        "async, with and without breaker events (incl. the half-open admission event), with and without timeline capture; 30 % of the "
        "cases run with warnings turned into errors (python -W error). "
        "Oracle: the complete observable trace (operation invocations, sleeps, strategy calls, the other sink, timeline, "
        "breaker and budget calls, delivered result) equals the silent-hook trace. Non-trivial = a case with >= 3 hook "
        "invocations and at least one faulted run. evaluations counts runs."
    ),
    streams=[
        Stream("hook_faults", check, strategy=case_st(), quick=2500, thorough=60000),
        Stream("long_runs", check_long_run, enum=enum_long_runs, quick=1, thorough=1),
    ],
)
