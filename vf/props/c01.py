"""C01 — attempt caps (global, per-class, UNKNOWN, non-retryable) are never exceeded."""
from __future__ import annotations

import itertools

from . import _common as C
from .. import gen, oracles
from ..runner import Property, Stream, Verdict

PROFILE = {
    "max_attempts": 8,
    "multi_call": (1, 3),
    "abort": 0.1,
    "handler": 0.1,
    "budget": 0.15,
    "deadline": 0.25,
    "special": 0.03,
    "hostile_values": False,
    "max_delay_ticks": 16,
    "attempt_timeout": 0.1,
}


def check(case: dict) -> Verdict:
    v = Verdict()
    env, cvs = C.run(case)
    out: list = []
    nontrivial = False
    for cv in cvs:
        info = oracles.c01(case, cv, out)
        if info["failures"] >= 2 and info["cap_reason"]:
            nontrivial = True
        v.tag(C.reason_tag(cv))
    # no counter carries over between calls on the same policy object: each later call must behave
    # exactly as on a fresh object (budget state is legitimately shared, so only without a budget)
    if len(cvs) > 1 and case["cfg"].get("budget") is None:
        for j in range(1, len(cvs)):
            only = {k: x for k, x in case["calls"][j].items() if k != "advance"}
            if only.get("handler") is None and any(c.get("handler") is not None for c in case["calls"]):
                only["handler"] = []  # the reused object had a (policy- or call-level) handler installed
            fresh_case = {**case, "calls": [only]}
            env2, cv2 = C.run(fresh_case)
            v.evals += 1
            if C.projection(cvs[j]) != C.projection(cv2[0]):
                a, b = C.projection(cvs[j]), C.projection(cv2[0])
                diff = next((i for i, (x, y) in enumerate(zip(a, b)) if x != y), min(len(a), len(b)))
                out.append(("C01:state-carried-over", f"call #{j + 1} on a reused {case['entry']} object differs from the same call on a fresh object at event {diff}: {a[diff:diff+2]} vs {b[diff:diff+2]}"))
            if any(oracles.failed(case, a) for cv in cvs[:j] for a in cv.atts):
                nontrivial = True
                v.tag("reused-object-after-failures")
    v.violations = out
    v.nontrivial = nontrivial
    v.tag("entry:" + case["entry"])
    return v


# exhaustive small-scope enumeration: outcome alphabet ^ (<=4 attempts) x caps
ALPHABET = [
    ("ok", None),
    ("exc", "TRANSIENT"),
    ("exc", "UNKNOWN"),
    ("exc", "RATE_LIMIT"),
    ("exc", "PERMANENT"),
    ("res", "TRANSIENT"),
    ("res", "UNKNOWN"),
    ("res", "AUTH"),
    ("exc", "PERMISSION"),
]


def enum_cases(tier: str):
    lengths = (1, 2, 3) if tier == "quick" else (1, 2, 3, 4)
    limits = (None, 0, 1, 2)
    entries = ["Retry.call", "AsyncRetry.execute"] if tier == "quick" else ["Retry.call", "Retry.execute", "AsyncRetry.call", "AsyncRetry.execute", "Policy.execute", "AsyncPolicy.call"]
    for n in lengths:
        for outcome in itertools.product(ALPHABET, repeat=n):
            if any(k == "ok" for k, _ in outcome[:-1]):
                continue  # nothing runs after a success; covered by shorter scripts
            for ma in range(1, 5):
                if ma < n - 1:
                    continue
                for pc in limits:
                    for mu in limits:
                        script = [{"dur": 1, "kind": k, **({"klass": c} if c else {})} for k, c in outcome]
                        cfg = {"max_attempts": ma, "max_unknown": mu, "default": {"vals": [0.015625], "style": "ctx"}}
                        if pc is not None:
                            cfg["per_class"] = {"TRANSIENT": pc, "UNKNOWN": pc + 1}
                        for e in entries:
                            yield {"cfg": cfg, "calls": [{"script": script}], "entry": e}


from hypothesis import strategies as st  # noqa: E402


@st.composite
def long_run_case(draw):
    """Many failures in one call: caps far above the usual handful, and small caps whose earlier
    failures lie dozens of attempts back (interleaved classes)."""
    ma = draw(st.sampled_from([33, 34, 40, 64, 65, 100, 130]))
    big = st.sampled_from([0, 1, 2, 3, 30, 31, 32, 33, 40, 63, 64, 65, 99])
    cfg: dict = {"max_attempts": ma, "max_unknown": draw(st.one_of(st.none(), big)), "default": {"vals": [0.0], "style": "ctx"}}
    classes = draw(st.lists(st.sampled_from(gen.RETRYABLE), min_size=1, max_size=3, unique=True))
    if gen.chance(draw, 0.8, "long-pc"):
        cfg["per_class"] = {k: draw(big) for k in draw(st.lists(st.sampled_from(classes + ["UNKNOWN"]), min_size=1, max_size=2, unique=True))}
    # a block of one class, a long block of another, then the first again: `lead` K1, `gap` K2, K1 ...
    lead = draw(st.sampled_from([1, 2, 3]))
    gap = draw(st.sampled_from([0, 1, 30, 31, 32, 33, 40]))
    k1 = classes[0]
    k2 = classes[-1] if len(classes) > 1 else "UNKNOWN"
    kind = draw(st.sampled_from(["exc", "exc", "res"]))
    script = [{"dur": 0, "kind": kind, "klass": k1}] * lead + [{"dur": 0, "kind": "exc", "klass": k2}] * gap + [{"dur": 0, "kind": kind, "klass": k1}]
    case = {"cfg": cfg, "calls": [{"script": [dict(e) for e in script]}]}
    if gen.chance(draw, 0.3, "long-cycle"):
        case["calls"][0]["cycle"] = True
    case["placement"] = {"log": False, "attempt_hooks": "none"}
    case["entry"] = draw(st.sampled_from(["Retry.call", "Retry.execute", "AsyncRetry.call", "AsyncRetry.execute", "Policy.execute", "AsyncRetryPolicy.call"]))
    return case


PROP = Property(
    id="C01",
    level="exploration",
    rule=(
        "Hypothesis-generated (config x outcome script x 1-3 calls on one policy object x 12 entry points), counting "
        "invariants on the trace plus a fresh-object differential for every later call; thorough/quick tiers also "
        "enumerate exhaustively every outcome script over a 9-letter alphabet up to length 4/3 x max_attempts 1..4 x "
        "per-class limit {-,0,1,2} x UNKNOWN cap {-,0,1,2}; a long-run stream uses max_attempts 33..130 with caps around 32/64 and "
        "blocks of one class separated by 30-40 failures of another. Non-trivial = a call with >=2 classified failures that ends on a "
        "cap (global/per-class/UNKNOWN/non-retryable), or a reused-object call made after earlier calls left failures "
        "behind. Distinct = distinct canonical (case, entry)."
    ),
    assumptions=["time only advances inside the scripted operation and sleeper (virtual monotonic clock)"],
    streams=[
        Stream("caps", check, strategy=C.with_entry(gen.retry_case(PROFILE), C.WIDE_ENTRIES), quick=12000, thorough=300000),
        Stream("small_scope", check, enum=enum_cases, quick=1, thorough=1, exhaustive=True),
        Stream("long_runs", check, strategy=long_run_case(), quick=1500, thorough=40000),
    ],
)
