"""C01 — attempt caps (global, per-class, UNKNOWN, non-retryable) are never exceeded."""
from __future__ import annotations

import itertools

from . import _common as C
from .. import gen, oracles
from ..runner import Property, Stream, Verdict

PROFILE = {
    "max_attempts": 8,
    "multi_call": (1, 3),
    "abort": 0.1,
    "handler": 0.1,
    "budget": 0.15,
    "deadline": 0.25,
    "special": 0.03,
    "hostile_values": False,
    "max_delay_ticks": 16,
    "attempt_timeout": 0.1,
}


def check(case: dict) -> Verdict:
    v = Verdict()
    env, cvs = C.run(case)
    out: list = []
    nontrivial = False
    for cv in cvs:
        info = oracles.c01(case, cv, out)
        if info["failures"] >= 2 and info["cap_reason"]:
            nontrivial = True
        v.tag(C.reason_tag(cv))
    # no counter carries over between calls on the same policy object: each later call must behave
    # exactly as on a fresh object (budget state is legitimately shared, so only without a budget)
    if len(cvs) > 1 and case["cfg"].get("budget") is None:
        for j in range(1, len(cvs)):
            only = {k: x for k, x in case["calls"][j].items() if k != "advance"}
            if only.get("handler") is None and any(c.get("handler") is not None for c in case["calls"]):
                only["handler"] = []  # the reused object had a (policy- or call-level) handler installed
            fresh_case = {**case, "calls": [only]}
            env2, cv2 = C.run(fresh_case)
            v.evals += 1
            if C.projection(cvs[j]) != C.projection(cv2[0]):
                a, b = C.projection(cvs[j]), C.projection(cv2[0])
                diff = next((i for i, (x, y) in enumerate(zip(a, b)) if x != y), min(len(a), len(b)))
                out.append(("C01:state-carried-over", f"call #{j + 1} on a reused {case['entry']} object differs from the same call on a fresh object at event {diff}: {a[diff:diff+2]} vs {b[diff:diff+2]}"))
            if any(oracles.failed(case, a) for cv in cvs[:j] for a in cv.atts):
                nontrivial = True
                v.tag("reused-object-after-failures")
    v.violations = out
    v.nontrivial = nontrivial
    v.tag("entry:" + case["entry"])
    return v


# exhaustive small-scope enumeration: outcome alphabet ^ (<=4 attempts) x caps
ALPHABET = [
    ("ok", None),
    ("exc", "TRANSIENT"),
    ("exc", "UNKNOWN"),
    ("exc", "RATE_LIMIT"),
    ("exc", "PERMANENT"),
    ("res", "TRANSIENT"),
    ("res", "UNKNOWN"),
    ("res", "AUTH"),
    ("exc", "PERMISSION"),
]


def enum_cases(tier: str):
    lengths = (1, 2, 3) if tier == "quick" else (1, 2, 3, 4)
    limits = (None, 0, 1, 2)
    entries = ["Retry.call", "AsyncRetry.execute"] if tier == "quick" else ["Retry.call", "Retry.execute", "AsyncRetry.call", "AsyncRetry.execute", "Policy.execute", "AsyncPolicy.call"]
    for n in lengths:
        for outcome in itertools.product(ALPHABET, repeat=n):
            if any(k == "ok" for k, _ in outcome[:-1]):
                continue  # nothing runs after a success; covered by shorter scripts
            for ma in range(1, 5):
                if ma < n - 1:
                    continue
                for pc in limits:
                    for mu in limits:
                        script = [{"dur": 1, "kind": k, **({"klass": c} if c else {})} for k, c in outcome]
                        cfg = {"max_attempts": ma, "max_unknown": mu, "default": {"vals": [0.015625], "style": "ctx"}}
                        if pc is not None:
                            cfg["per_class"] = {"TRANSIENT": pc, "UNKNOWN": pc + 1}
                        for e in entries:
                            yield {"cfg": cfg, "calls": [{"script": script}], "entry": e}


from hypothesis import strategies as st  # noqa: E402


@st.composite
def long_run_case(draw):
    """Many failures in one call: caps far above the usual handful, and small caps whose earlier
    failures lie dozens of attempts back (interleaved classes)."""
    ma = draw(st.sampled_from([33, 34, 40, 64, 65, 100, 130]))
    big = st.sampled_from([0, 1, 2, 3, 30, 31, 32, 33, 40, 63, 64, 65, 99])
    cfg: dict = {"max_attempts": ma, "max_unknown": draw(st.one_of(st.none(), big)), "default": {"vals": [0.0], "style": "ctx"}}
    classes = draw(st.lists(st.sampled_from(gen.RETRYABLE), min_size=1, max_size=3, unique=True))
    if gen.chance(draw, 0.8, "long-pc"):
        cfg["per_class"] = {k: draw(big) for k in draw(st.lists(st.sampled_from(classes + ["UNKNOWN"]), min_size=1, max_size=2, unique=True))}
    # a block of one class, a long block of another, then the first again: `lead` K1, `gap` K2, K1 ...
    lead = draw(st.sampled_from([1, 2, 3]))
    gap = draw(st.sampled_from([0, 1, 30, 31, 32, 33, 40]))
    k1 = classes[0]
    k2 = classes[-1] if len(classes) > 1 else "UNKNOWN"
    kind = draw(st.sampled_from(["exc", "exc", "res"]))
    script = [{"dur": 0, "kind": kind, "klass": k1}] * lead + [{"dur": 0, "kind": "exc", "klass": k2}] * gap + [{"dur": 0, "kind": kind, "klass": k1}]
    case = {"cfg": cfg, "calls": [{"script": [dict(e) for e in script]}]}
    if gen.chance(draw, 0.3, "long-cycle"):
        case["calls"][0]["cycle"] = True
    case["placement"] = {"log": False, "attempt_hooks": "none"}
    case["entry"] = draw(st.sampled_from(["Retry.call", "Retry.execute", "AsyncRetry.call", "AsyncRetry.execute", "Policy.execute", "AsyncRetryPolicy.call"]))
    return case


# ---------------------------------------------------------------------------- overlapping calls on one object


@st.composite
def overlap_case(draw):
    classes = st.sampled_from(["RATE_LIMIT", "TRANSIENT", "SERVER_ERROR", "UNKNOWN", "ok"])
    return {
        "max_attempts": draw(st.sampled_from([3, 4, 6, 8])),
        "per_class": draw(st.dictionaries(st.sampled_from(["RATE_LIMIT", "TRANSIENT", "UNKNOWN"]), st.sampled_from([0, 1, 1, 2]), min_size=1, max_size=2)),
        "max_unknown": draw(st.sampled_from([None, 0, 1, 2])),
        "a": draw(st.lists(classes, min_size=1, max_size=6)),
        "b": draw(st.lists(classes, min_size=1, max_size=4)),
        "mode": draw(st.sampled_from(["nested_sync", "nested_async", "interleaved_async"])),
        "at": draw(st.integers(0, 4)),
        "same_object": draw(st.sampled_from([True, True, False])),
        "sched": draw(st.lists(st.integers(0, 1), max_size=24)),
        "via": draw(st.sampled_from(["execute", "call"])),
    }


def check_overlap(case: dict) -> Verdict:
    """A call that starts (nested in the operation, or as another asyncio task) while an earlier call on the
    same thread is still in progress must not disturb that call's counters, and vice versa: each call behaves
    exactly as it does alone on a fresh object."""
    import redress
    from redress import ErrorClass

    from ..harness import Suspend

    v = Verdict()

    class Boom(Exception):
        def __init__(self, k):
            super().__init__(k)
            self.k = k

    def make_policy(is_async):
        R = redress.AsyncRetry if is_async else redress.Retry
        return R(
            classifier=lambda e: ErrorClass[e.k],
            strategy=lambda ctx: 0.0,
            max_attempts=case["max_attempts"],
            max_unknown_attempts=case["max_unknown"],
            per_class_max_attempts={ErrorClass[k]: n for k, n in case["per_class"].items()},
            deadline_s=1e6,
        )

    def script_at(script, i):
        return script[i] if i < len(script) else script[-1]

    def summarize(kind, obj, log):
        if kind == "raise":
            return ("raise", type(obj).__name__, getattr(obj, "k", None), tuple(log))
        if isinstance(obj, redress.RetryOutcome):
            return ("outcome", obj.ok, obj.attempts, str(obj.stop_reason), str(obj.last_class), tuple(log))
        return ("value", obj, tuple(log))

    is_async = case["mode"] != "nested_sync"

    def run_sync(pol, script, log, hook=None):
        def op():
            i = len([x for x in log if x[0] == "op"])
            log.append(("op", i))
            if hook is not None:
                hook(i)
            k = script_at(script, i)
            if k == "ok":
                return ("value", i)
            raise Boom(k)

        try:
            return summarize("return", getattr(pol, case["via"])(op, sleeper=lambda s: None, on_metric=lambda ev, a, s, t: log.append((ev, a, t.get("class")))), log)
        except Exception as x:  # noqa: BLE001
            return summarize("raise", x, log)

    async def run_async(pol, script, log, hook=None, susp=True):
        async def op():
            i = len([x for x in log if x[0] == "op"])
            log.append(("op", i))
            if susp:
                await Suspend("op")
            if hook is not None:
                await hook(i)
            k = script_at(script, i)
            if k == "ok":
                return ("value", i)
            raise Boom(k)

        async def sleeper(s):
            if susp:
                await Suspend("sleep")

        try:
            r = await getattr(pol, case["via"])(op, sleeper=sleeper, on_metric=lambda ev, a, s, t: log.append((ev, a, t.get("class"))))
            return summarize("return", r, log)
        except Exception as x:  # noqa: BLE001
            return summarize("raise", x, log)

    def drive_all(coros, sched):
        results = {}
        live = dict(enumerate(coros))
        pos = 0
        guard = 0
        while live and guard < 2000:
            guard += 1
            ids = sorted(live)
            pick = ids[(sched[pos] if pos < len(sched) else 0) % len(ids)]
            pos += 1
            try:
                live[pick].send(None)
            except StopIteration as si:
                results[pick] = si.value
                del live[pick]
        for c in live.values():
            c.close()
        return results

    # solo references on fresh objects
    if is_async:
        solo_a = drive_all([run_async(make_policy(True), case["a"], [])], [])[0]
        solo_b = drive_all([run_async(make_policy(True), case["b"], [])], [])[0]
    else:
        solo_a = run_sync(make_policy(False), case["a"], [])
        solo_b = run_sync(make_policy(False), case["b"], [])
    v.evals += 2
    pol = make_policy(is_async)
    other = pol if case["same_object"] else make_policy(is_async)
    inner_result = {}
    if case["mode"] == "nested_sync":
        def hook(i):
            if i == case["at"] and "r" not in inner_result:
                inner_result["r"] = run_sync(other, case["b"], [])

        got_a = run_sync(pol, case["a"], [], hook)
        got_b = inner_result.get("r")
    elif case["mode"] == "nested_async":
        async def ahook(i):
            if i == case["at"] and "r" not in inner_result:
                inner_result["r"] = await run_async(other, case["b"], [], susp=False)

        got_a = drive_all([run_async(pol, case["a"], [], ahook)], [])[0]
        got_b = inner_result.get("r")
    else:
        res = drive_all([run_async(pol, case["a"], []), run_async(other, case["b"], [])], case["sched"])
        got_a, got_b = res.get(0), res.get(1)
    what = f"{case['mode']} ({'same' if case['same_object'] else 'different'} policy object)"
    if got_a != solo_a:
        v.fail(f"C01:overlap:{case['mode']}:outer", f"{what}: call A behaves differently when another call overlaps it: alone {solo_a}, overlapped {got_a}; case {case}")
    if got_b is not None and got_b != solo_b:
        v.fail(f"C01:overlap:{case['mode']}:inner", f"{what}: call B behaves differently when it overlaps another call: alone {solo_b}, overlapped {got_b}; case {case}")
    nfa = sum(1 for k in case["a"][: case["max_attempts"]] if k != "ok")
    v.nontrivial = got_b is not None and nfa >= 2
    v.tag("overlap:" + case["mode"], "overlap-happened" if got_b is not None else "no-overlap")
    return v


PROP = Property(
    id="C01",
    level="exploration",
    rule=(
        "Hypothesis-generated (config x outcome script x 1-3 calls on one policy object x 12 entry points), counting "
        "invariants on the trace plus a fresh-object differential for every later call; thorough/quick tiers also "
        "enumerate exhaustively every outcome script over a 9-letter alphabet up to length 4/3 x max_attempts 1..4 x "
        "per-class limit {-,0,1,2} x UNKNOWN cap {-,0,1,2}; a long-run stream uses max_attempts 33..130 with caps around 32/64 and "
        "blocks of one class separated by 30-40 failures of another; a 'reconfigured' stream edits max_attempts / "
        "max_unknown_attempts / per_class_max_attempts on a used policy object and compares the next call with a fresh object "
        "built with the new values, and a 'midflight' stream rebinds the caps while the call is backing off (a retry must respect the cap in force when it is granted); an 'overlapping_calls' stream starts a second call while the first is in progress on the same "
        "thread (nested inside the operation, sync and async, or as an interleaved coroutine under a generated schedule; same or "
        "different policy object) and requires each call to behave exactly as it does alone. Non-trivial = a call with >=2 classified failures that ends on a "
        "cap (global/per-class/UNKNOWN/non-retryable), or a reused-object call made after earlier calls left failures "
        "behind. Distinct = distinct canonical (case, entry)."
    ),
    assumptions=["time only advances inside the scripted operation and sleeper (virtual monotonic clock)"],
    streams=[
        Stream("caps", check, strategy=C.with_entry(gen.retry_case(PROFILE), C.WIDE_ENTRIES), quick=12000, thorough=300000),
        Stream("small_scope", check, enum=enum_cases, quick=1, thorough=1, exhaustive=True),
        Stream("long_runs", check, strategy=long_run_case(), quick=1500, thorough=40000),
        Stream("overlapping_calls", check_overlap, strategy=overlap_case(), quick=4000, thorough=100000),
        Stream("midflight", check, strategy=C.midflight_case(PROFILE, ["per_class", "max_unknown"], C.RECONF_ENTRIES), quick=3000, thorough=60000),
        Stream("reconfigured", lambda case: C.check_reconfigured(case, "C01"), strategy=C.reconfigured_case(PROFILE, ["max_attempts", "max_unknown", "per_class"]), quick=3000, thorough=60000),
    ],
)
