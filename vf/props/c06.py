"""C06 — breaker opens exactly when counted failures reach a threshold in the window."""
from __future__ import annotations

import itertools

from .. import breaker_machine as bm
from ..runner import Property, Stream, Verdict


def check(case: dict) -> Verdict:
    v = Verdict()
    out, info = bm.run_history(case)
    v.violations = [(sig, msg) for prop, sig, msg in out if prop == "C06"]
    v.nontrivial = info["open_after_advance"] or info["boundary_age"] or info["cycle"]
    for k in ("open_after_advance", "boundary_age", "cycle", "half_open"):
        if info[k]:
            v.tag(k)
    v.tag(f"opens={min(info['opens'], 3)}")
    return v


def enum_small(tier: str):
    """Every history of length <= L over a small alphabet, for a few configurations (window < / = / > recovery)."""
    alphabet = [["fail", "TRANSIENT"], ["fail", "UNKNOWN"], ["succ"], ["allow"], ["adv", 1], ["adv_win", 0], ["adv_win_class", "UNKNOWN", 0], ["adv_win_f", -1]]
    L = 5 if tier == "quick" else 6
    cfgs = [
        {"threshold": 2, "window": 4, "recovery": 4},
        {"threshold": 3, "window": 4, "recovery": 2, "class_thresholds": {"UNKNOWN": 2}},
        {"threshold": 3, "window": 2, "recovery": 4, "trip_on": ["TRANSIENT"]},
    ]
    for cfg in cfgs:
        for n in range(1, L + 1):
            for ops in itertools.product(alphabet, repeat=n):
                yield {"breaker": cfg, "ops": [list(o) for o in ops]}


from hypothesis import strategies as st  # noqa: E402


@st.composite
def large_history_case(draw):
    """Thresholds well above the usual handful, bursts of failures, exact window boundaries."""
    thr = draw(st.sampled_from([64, 65, 66, 70, 100, 100, 1024, 1025, 1500]))
    spec = {"threshold": thr, "window": draw(st.sampled_from([4, 16, 64])), "recovery": 4, "trip_on": ["TRANSIENT", "SERVER_ERROR"]}
    if draw(st.booleans()):
        spec["class_thresholds"] = {"TRANSIENT": draw(st.sampled_from([64, 65, 70] if thr <= 100 else [1025, 1400]))}
    sizes = [1, 10, 30, 62, 63, 64, 65, 70] if thr <= 100 else [1, 500, 1023, 1024, 1025, 1500]
    burst = st.tuples(st.just("fail_n"), st.sampled_from(["TRANSIENT", "SERVER_ERROR"]), st.sampled_from(sizes))
    ops = draw(
        st.lists(
            st.one_of(burst, burst, st.tuples(st.just("adv_win"), st.sampled_from([-1, 0, 0, 1])), st.tuples(st.just("adv_win_class"), st.just("TRANSIENT"), st.sampled_from([-1, 0, 1])),
                      st.tuples(st.just("adv"), st.sampled_from([1, 2, 4])), st.tuples(st.just("fail"), st.sampled_from(["TRANSIENT", "SERVER_ERROR"])), st.tuples(st.just("allow")), st.tuples(st.just("adv_rec"), st.just(0)), st.tuples(st.just("succ"))),
            min_size=2,
            max_size=12,
        )
    )
    return {"breaker": spec, "ops": [list(o) for o in ops]}


PROP = Property(
    id="C06",
    level="exploration",
    rule=(
        "Model-based history generation: Hypothesis draws a breaker configuration (thresholds 1..4, class thresholds, trip_on "
        "None/empty/subsets/all, window <,=,> recovery timeout) and a history of up to 60 (quick) / 200 (thorough) operations "
        "over allow / record_success / record_failure(class) / record_cancel / state / clock advances, including symbolic "
        "advances that age the oldest live failure to exactly window_s +/- 1 tick / +/- 1 ns .. 1 ms and reach the recovery boundary likewise; after "
        "every operation the return value and .state must equal an independent reference model's (so the circuit opens at "
        "exactly the operation where the model's live count reaches a threshold). Plus exhaustive enumeration of all histories "
        "up to length 5/6 over an 8-letter alphabet for 3 configurations, and a stream with thresholds 64..100, bursts of up to 70 "
        "failures and exact window boundaries. Non-trivial = history containing an open caused by "
        ">= 2 failures with a clock advance between them, or a failure aged exactly to the window boundary, or a full "
        "open -> half-open -> closed -> open cycle."
    ),
    assumptions=["the breaker reads time through time.monotonic (default clock), routed to the virtual clock"],
    streams=[
        Stream("histories", check, strategy=lambda tier: bm.history_case(60 if tier == "quick" else 200), quick=16000, thorough=400000),
        Stream("small_histories", check, enum=enum_small, quick=1, thorough=1, exhaustive=True),
        Stream("large_histories", check, strategy=large_history_case(), quick=3000, thorough=60000),
    ],
)
