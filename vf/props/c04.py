"""C04 — call() surfaces exactly the last attempt's value or exception."""
from __future__ import annotations

from . import _common as C
from .. import gen, oracles
from ..runner import Property, Stream, Verdict

PROFILE = {
    "max_attempts": 6,
    "deadline": 0.3,
    "deadline_aware": True,
    "abort": 0.05,
    "handler": 0.35,
    "budget": 0.2,
    "special": 0.02,
    "overshoot": 0.2,
    "p_retryable": 0.8,
    "max_dur": 16,
    "max_delay_ticks": 32,
    "attempt_timeout": 0.1,
    "multi_call": (1, 2),
    "handler_time": 0.3,
    "offgrid_delays": 0.15,
}
ENTRIES = C.CALL_ENTRIES + ["Retry.context.call", "AsyncRetry.context.call", "Policy.context.call", "AsyncPolicy.context.call", "decorator.call", "adecorator.call"]


def check(case: dict) -> Verdict:
    v = Verdict()
    env, cvs = C.run(case)
    out: list = []
    for cv in cvs:
        info = oracles.c04(case, cv, out)
        v.nontrivial = v.nontrivial or info["mixed"]
        v.tag(C.reason_tag(cv))
        f = cv.final
        v.tag("via:" + f["via"] + (":" + f.get("type", "") if f["via"] == "raise" else ""))
    v.violations = out
    v.tag("entry:" + case["entry"])
    return v


PROP = Property(
    id="C04",
    level="exploration",
    rule=(
        "Hypothesis-generated histories mixing exception- and result-classified failures of every class, every stop reason, "
        "handler DEFER decisions, through all call-mode entry points (Retry/Policy/RetryPolicy, context managers, @retry; sync "
        "and async). Oracle: object identity of the returned value / raised exception with the object produced by the last "
        "attempt, traceback ends in the operation, RetryExhaustedError fields vs trace. Non-trivial = >= 2 classified "
        "failures in the call (so that an earlier exception/result exists to be confused with the last one)."
    ),
    streams=[Stream("identity", check, strategy=C.with_entry(gen.retry_case(PROFILE), ENTRIES), quick=14000, thorough=300000)],
)
