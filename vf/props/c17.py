"""C17 — Budget and CircuitBreaker are atomic under concurrent threads."""
from __future__ import annotations

import itertools

from hypothesis import strategies as st

from .. import bootstrap

bootstrap.install()

import redress.budget as budget_mod  # noqa: E402
import redress.circuit as circuit_mod  # noqa: E402
from redress import Budget, CircuitBreaker, ErrorClass  # noqa: E402

from ..harness import VClock, g  # noqa: E402
from ..runner import Property, Stream, Verdict, digest  # noqa: E402
from ..sched import Deadlock, LockFactory, SchedulerHang, explore  # noqa: E402

TARGET_FILES = {circuit_mod.__file__, budget_mod.__file__}

BREAKER_OPS = ["allow", "succ", "fail", "cancel", "state"]
BUDGET_OPS = ["c1", "c2", "rem"]
BREAKER_INITS = ["closed", "closed_near", "open_early", "open_ready", "half_probe", "half_free"]
BUDGET_INITS = ["empty", "one_left", "full"]
THRESHOLD = 2
BUDGET_MAX = 3


class Component:
    """A fresh component in a given initial state, built through public operations only."""

    def __init__(self, kind: str, init: str) -> None:
        self.kind = kind
        self.factory = LockFactory()
        self.clock = VClock(None)
        bootstrap.set_clock(self.clock)
        bootstrap.set_sched(self.factory)
        try:
            if kind == "breaker":
                self.obj = CircuitBreaker(failure_threshold=THRESHOLD, window_s=g(640), recovery_timeout_s=g(64), trip_on={ErrorClass.TRANSIENT})
            elif kind == "breaker_userclock":
                # the caller supplies its own clock object, protected by its own re-entrant lock
                self.clock_lock = self.factory.make_lock(reentrant=True)
                vclock = self.clock

                def user_clock():
                    with self.clock_lock:
                        return vclock.monotonic()

                self.obj = CircuitBreaker(failure_threshold=THRESHOLD, window_s=g(640), recovery_timeout_s=g(64), trip_on={ErrorClass.TRANSIENT}, clock=user_clock)
            elif kind == "breaker_ct":
                # opens through a per-class threshold only (the global threshold is out of reach)
                self.obj = CircuitBreaker(failure_threshold=50, window_s=g(640), recovery_timeout_s=g(64), trip_on=set(), class_thresholds={ErrorClass.TRANSIENT: THRESHOLD})
            else:
                self.obj = Budget(max_retries=BUDGET_MAX, window_s=g(640))
        finally:
            bootstrap.set_sched(None)
        b = self.obj
        T = ErrorClass.TRANSIENT
        if kind in ("breaker", "breaker_ct", "breaker_userclock"):
            if init == "closed_near":
                b.record_failure(T)
            elif init in ("open_early", "open_ready", "half_probe", "half_free"):
                b.record_failure(T)
                b.record_failure(T)
                if init != "open_early":
                    self.clock.t += g(64)
                if init in ("half_probe", "half_free"):
                    b.allow()
                if init == "half_free":
                    b.record_cancel()
        else:
            if init == "one_left":
                b.consume(2)
            elif init == "full":
                b.consume(3)

    def op(self, name: str):
        b = self.obj
        if name.startswith("loop_"):
            # the caller is a thread that runs an asyncio event loop (an async service sharing the component with
            # worker threads): the operation is invoked from inside a running loop
            import asyncio

            async def inside_loop():
                return self.op(name[len("loop_"):])

            loop = asyncio.new_event_loop()
            try:
                return loop.run_until_complete(inside_loop())
            finally:
                loop.close()
        if name.startswith("locked_"):
            # user code that holds its clock's lock while it talks to the breaker (e.g. advancing a manual clock)
            with self.clock_lock:
                return self.op(name[len("locked_"):])
        if name == "allow":
            d = b.allow()
            return ("allow", d.allowed, d.state.value, d.event)
        if name == "succ":
            return ("succ", b.record_success())
        if name == "fail":
            return ("fail", b.record_failure(ErrorClass.TRANSIENT))
        if name == "cancel":
            return ("cancel", b.record_cancel())
        if name == "state":
            return ("state", b.state.value)
        if name == "c1":
            return ("c1", b.consume(1))
        if name == "c2":
            return ("c2", b.consume(2))
        if name == "rem":
            return ("rem", b.remaining())
        raise ValueError(name)

    def observe(self):
        """Observable final state through follow-up public operations (single-threaded)."""
        b = self.obj
        if self.kind in ("breaker", "breaker_ct", "breaker_userclock"):
            out = [b.state.value]
            d1 = b.allow()
            d2 = b.allow()
            out += [(d1.allowed, d1.state.value), (d2.allowed, d2.state.value)]
            if b.state.value == "closed":
                # how many more counted failures until it opens (reveals the failure history)
                k = 0
                while b.state.value == "closed" and k < THRESHOLD + 1:
                    b.record_failure(ErrorClass.TRANSIENT)
                    k += 1
                out.append(("failures_to_open", k))
            else:
                self.clock.t += g(64)
                d3 = b.allow()
                out.append(("after_timeout", d3.allowed, d3.state.value))
            return tuple(out)
        out = [("remaining", b.remaining())]
        k = 0
        while b.consume(1) and k < BUDGET_MAX + 2:
            k += 1
        out.append(("grants_left", k))
        return tuple(out)

    def close(self):
        bootstrap.set_clock(None)


def sequential_outcomes(kind: str, init: str, program: list) -> set:
    """Every outcome of running the same operations one at a time in an order that respects
    each thread's program order."""
    outs = set()
    slots = [i for i, ops in enumerate(program) for _ in ops]
    for perm in set(itertools.permutations(slots)):
        c = Component(kind, init)
        try:
            idx = [0] * len(program)
            res: list = [[] for _ in program]
            for t in perm:
                res[t].append(c.op(program[t][idx[t]]))
                idx[t] += 1
            outs.add((tuple(("ok", tuple(r)) for r in res), c.observe()))
        finally:
            c.close()
    return outs


def check_program(case: dict) -> Verdict:
    """Run one concurrent program under every schedule (bounded as the case says)."""
    v = Verdict()
    kind, init, program = case["kind"], case["init"], case["program"]
    k = case.get("max_preemptions")
    budget_sched = case.get("max_schedules", 20000)
    allowed = sequential_outcomes(kind, init, program)
    seen: dict = {}
    nsched = 0
    npre_inside = 0
    holder: dict = {}

    def make():
        c = Component(kind, init)
        holder["c"] = c
        bodies = [(lambda ops=ops, c=c: tuple(c.op(o) for o in ops)) for ops in program]
        return c.factory, bodies, c.observe

    try:
        for choices, res, obs, s, err in explore(make, TARGET_FILES, max_preemptions=k, max_schedules=budget_sched, prefix_choices=case.get("prefix")):
            nsched += 1
            if holder.get("c"):
                holder["c"].close()
            if s.preemptions:
                npre_inside += 1
            if err is not None:
                kindname = "deadlock" if isinstance(err, Deadlock) else "hang"
                v.fail(f"C17:{kind}:{kindname}", f"{kind} init={init} program={program}: {err} under schedule {choices}")
                case["prefix"] = choices
                break
            norm = tuple((r[0], r[1]) if r[0] == "ok" else r for r in res)
            if any(r[0] == "exc" for r in res):
                v.fail(f"C17:{kind}:exception", f"{kind} init={init} program={program}: a thread raised {res} under schedule {choices}")
                break
            outcome = (norm, obs)
            seen.setdefault(outcome, choices)
            if outcome not in allowed:
                ops = "+".join(sorted({o for ops in program for o in ops}))
                v.fail(
                    f"C17:{kind}:not-linearizable:{ops}",
                    f"{kind} init={init} program={program}: outcome {outcome} under schedule {choices} equals no sequential ordering (sequential outcomes: {sorted(allowed, key=repr)[:4]})",
                )
                break
    finally:
        if holder.get("c"):
            holder["c"].close()
        bootstrap.set_clock(None)
    v.evals = max(1, nsched)
    v.nontrivial = npre_inside > 0
    complete = explore.complete and not v.violations
    v.tag(f"{kind}:{len(program)}x{max(len(o) for o in program)}", "exhaustive" if (complete and k is None) else (f"all-schedules-with<={k}-preemptions" if complete else "truncated"))
    v.tag(f"outcomes-seen={len(seen)}/sequential={len(allowed)}")
    v.info = {"schedules": nsched, "complete": complete, "bound": k, "outcomes_seen": len(seen), "sequential_outcomes": len(allowed)}
    return v


# ---------------------------------------------------------------------------- a clock that moves during the race


class SeqClock:
    """monotonic() returns the next value of a non-decreasing sequence (then keeps adding the last step):
    time passes between two threads' clock reads, in whatever order the schedule makes them."""

    def __init__(self, values):
        self.values = list(values)
        self.i = 0
        self.reads = []
        self.by_thread: dict = {}

    def monotonic(self):
        if self.i < len(self.values):
            t = self.values[self.i]
        else:
            t = self.values[-1] + (self.i - len(self.values) + 1)
        self.i += 1
        self.reads.append(t)
        import threading as _th

        self.by_thread.setdefault(_th.get_ident(), []).append(t)
        return 1000.0 + t / 64

    def time(self):
        return 1.7e9

    def rel_ticks(self):
        return self.values[min(self.i, len(self.values)) - 1] if self.i else 0


def check_moving_clock(case: dict) -> Verdict:
    """Budget under threads with time passing between the clock reads: results need not be linearizable
    against a single instant, but the safety bound of C10/C17 must hold under every schedule: never more than
    max_retries grants whose own timestamps lie within one window (no over-grant), no exception, no deadlock."""
    v = Verdict()
    mx, w = case["max"], case["window"]
    nthreads = case["threads"]
    holder: dict = {}
    nsched = 0
    npre = 0

    def make():
        clock = SeqClock(case["times"])
        factory = LockFactory()
        bootstrap.set_clock(clock)
        bootstrap.set_sched(factory)
        try:
            b = Budget(max_retries=mx, window_s=w / 64)
        finally:
            bootstrap.set_sched(None)
        grants: list = []
        holder["clock"] = clock

        def body():
            import threading as _th

            ok = b.consume(1)
            mine = clock.by_thread.get(_th.get_ident()) or [None]
            return (ok, mine[0])  # the timestamp this thread's consume() read

        def observe():
            # single-threaded follow-up consumes at the later times of the sequence
            follow = []
            for _ in range(case["follow"]):
                i = len(clock.reads)
                ok = b.consume(1)
                follow.append((ok, clock.reads[i]))
            return tuple(follow)

        return factory, [body for _ in range(nthreads)], observe

    try:
        for choices, res, obs, s, err in explore(make, TARGET_FILES, max_preemptions=case.get("max_preemptions", 2), max_schedules=case.get("max_schedules", 3000)):
            nsched += 1
            if s.preemptions:
                npre += 1
            if err is not None:
                v.fail("C17:budget:moving-clock:" + ("deadlock" if isinstance(err, Deadlock) else "hang"), f"{case}: {err} under schedule {choices}")
                break
            if any(r[0] == "exc" for r in res):
                v.fail("C17:budget:moving-clock:exception", f"{case}: a thread raised {res} under schedule {choices}")
                break
            clock = holder["clock"]
            granted = [r[1][1] for r in res if r[1][0]]
            granted += [t for ok, t in obs if ok]
            for gt in granted:
                inside = [h for h in granted if gt - w < h <= gt]
                if len(inside) > mx:
                    v.fail("C17:budget:moving-clock:over-grant", f"{case}: {len(inside)} retries granted with timestamps {sorted(inside)} inside one window of {w} ticks (max_retries={mx}) under schedule {choices}")
                    break
            if v.violations:
                break
    finally:
        bootstrap.set_clock(None)
    v.evals = max(1, nsched)
    v.nontrivial = npre > 0
    v.tag("moving-clock", f"threads={nthreads}")
    return v


@st.composite
def moving_clock_case(draw, tier: str):
    w = draw(st.sampled_from([4, 16, 60]))
    steps = st.sampled_from([0, 0, 1, 2, w - 1, w, w + 1, 2 * w, w // 2])
    n = draw(st.sampled_from([2, 2, 3]))
    follow = draw(st.sampled_from([2, 3, 4]))
    t = draw(st.sampled_from([0, 5, 10]))
    times = [t]
    for _ in range(n + follow - 1):
        t += draw(steps)
        times.append(t)
    return {"max": draw(st.sampled_from([1, 2, 2, 3])), "window": w, "threads": n, "follow": follow, "times": times, "max_preemptions": 2 if tier == "quick" else 3, "max_schedules": 1200 if tier == "quick" else 8000}


# ---------------------------------------------------------------------------- program sources


def enum_two_by_one(tier: str):
    """Every ordered pair of operations x every initial state: full DFS (no pre-emption bound)."""
    for kind, ops, inits in (("breaker", BREAKER_OPS, BREAKER_INITS), ("breaker_ct", BREAKER_OPS, BREAKER_INITS), ("budget", BUDGET_OPS, BUDGET_INITS)):
        for init in inits:
            for a, b in itertools.product(ops, repeat=2):
                yield {"kind": kind, "init": init, "program": [[a], [b]], "max_preemptions": None, "max_schedules": 60000}
    # one of the two threads is running an event loop and calls the component from inside it
    for kind, ops, inits in (("breaker", ["allow", "fail", "succ"], ["closed_near", "open_ready", "half_probe"]), ("budget", BUDGET_OPS, BUDGET_INITS)):
        for init in inits:
            for a, b in itertools.product(ops, repeat=2):
                yield {"kind": kind, "init": init, "program": [["loop_" + a], [b]], "max_preemptions": None, "max_schedules": 60000}
    # a user clock with its own lock: one thread holds that lock while calling the breaker, the other just calls it
    for init in ("closed", "closed_near", "open_ready", "half_probe"):
        for a, b in itertools.product(["allow", "fail", "succ"], ["allow", "fail", "succ", "cancel"]):
            yield {"kind": "breaker_userclock", "init": init, "program": [["locked_" + a], [b]], "max_preemptions": 3, "max_schedules": 4000}


@st.composite
def program_case(draw, tier: str):
    kind = draw(st.sampled_from(["breaker", "breaker_ct", "budget"]))
    ops = BREAKER_OPS if kind != "budget" else BUDGET_OPS
    inits = BREAKER_INITS if kind != "budget" else BUDGET_INITS
    nthreads = draw(st.sampled_from([2, 3, 3]))
    per = draw(st.sampled_from([1, 2] if nthreads == 3 else [2, 2, 3]))
    program = [draw(st.lists(st.sampled_from(ops), min_size=1, max_size=per)) for _ in range(nthreads)]
    if draw(st.sampled_from([False, False, False, True])):
        program[0] = ["loop_" + o for o in program[0]]  # thread 0 calls from inside a running event loop
    return {
        "kind": kind,
        "init": draw(st.sampled_from(inits)),
        "program": program,
        "max_preemptions": 2 if tier == "quick" else 3,
        "max_schedules": 700 if tier == "quick" else 5000,
    }


PROP = Property(
    id="C17",
    level="exploration",
    rule=(
        "Small concurrent programs over the public operations of one CircuitBreaker (two configurations: opening through the global threshold, or only through a per-class threshold; allow, record_success, "
        "record_failure, record_cancel, state) or one Budget (consume(1), consume(2), remaining) from initial states built by "
        "a sequential prefix (closed, closed with threshold-1 failures, open before/after the recovery timeout, half-open "
        "with the probe taken / free; budget empty / one left / full). The harness owns the schedule: real threads run one "
        "at a time, every source line of redress/circuit.py and redress/budget.py is a pre-emption point, the component's "
        "lock is cooperative. (i) every ordered pair of operations x every initial state as a 2-thread program: ALL "
        "schedules (full depth-first enumeration); (ii) Hypothesis-generated 2-3 thread programs with 1-3 operations per "
        "thread: all schedules with <= 2 (quick) / <= 3 (thorough) pre-emptive switches, capped per program. Oracle: "
        "(per-thread results, final state observed through follow-up operations) must be in the set produced by running the "
        "same operations sequentially in every program-order-respecting order; no deadlock, no exception. (iii) Budget with a "
        "clock that advances between the threads' clock reads (steps around window_s): linearizability against one instant has no "
        "meaning there, so the oracle is the safety bound - never more than max_retries grants whose own timestamps lie in one "
        "window - plus no exception / deadlock, under all schedules with <= 2/3 pre-emptions. (iv) a breaker given a user "
        "clock that is protected by its own re-entrant lock, one thread holding that lock while it calls the breaker: no "
        "schedule may deadlock. (v) one of the threads runs an asyncio event loop and calls the component from inside it "
        "(2-thread pairs enumerated in full, and a quarter of the generated programs): same linearizability oracle. Non-trivial = a "
        "program for which at least one explored schedule pre-empted a thread inside a method; distinct = distinct (program, "
        "initial state, bound). evaluations counts schedules executed."
    ),
    assumptions=[
        "pre-emption granularity is the source line; atomicity of single C-level calls (deque.append, etc.) is assumed",
        "the clock is constant during a concurrent episode (each method reads its timestamp before taking the lock)",
        "small scope: 2-3 threads, 1-3 operations each",
    ],
    streams=[
        Stream("two_by_one_all_schedules", check_program, enum=enum_two_by_one, quick=1, thorough=1, exhaustive=True),
        Stream("bounded", check_program, strategy=lambda tier: program_case(tier), quick=160, thorough=1200, per_shard_min=5),
        Stream("budget_moving_clock", check_moving_clock, strategy=lambda tier: moving_clock_case(tier), quick=160, thorough=600, per_shard_min=5),
    ],
)
