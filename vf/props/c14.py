"""C14 — event stream explains every run: retry* then exactly one terminal event."""
from __future__ import annotations

from hypothesis import strategies as st

from . import _common as C
from .. import gen, oracles
from ..runner import Property, Stream, Verdict

PROFILE = {
    "max_attempts": 6,
    "deadline": 0.3,
    "deadline_aware": True,
    "abort": 0.25,
    "handler": 0.3,
    "budget": 0.25,
    "special": 0.03,
    "special_kinds": ["abort"],
    "overshoot": 0.2,
    "p_retryable": 0.85,
    "max_dur": 16,
    "max_delay_ticks": 32,
    "multi_call": (1, 2),
    "offgrid_delays": 0.15,
    "handler_time": 0.3,
}


@st.composite
def case_st(draw):
    case = draw(gen.retry_case(PROFILE))
    pl: dict = {}
    sinks = draw(st.sampled_from(["both", "both", "both", "metric", "log"]))
    pl["metric"] = sinks in ("both", "metric")
    pl["log"] = sinks in ("both", "log")
    case["placement"] = pl
    if gen.chance(draw, 0.4, "c14-op"):
        case["cfg"]["operation"] = draw(st.sampled_from(["fetch", "op2", "x", None, None, ""]))
    if gen.chance(draw, 0.3, "c14-tl"):
        pl["timeline"] = "instance"
    case["entry"] = draw(st.sampled_from(C.WIDE_ENTRIES))
    return case


def check(case: dict) -> Verdict:
    v = Verdict()
    env, cvs = C.run(case)
    out: list = []
    for cv in cvs:
        info = oracles.c14(case, cv, out, case["cfg"].get("budget"))
        if (info["retries"] >= 1 and info["terminal"] not in (None, "success")) or info["terminal"] == "aborted":
            v.nontrivial = True
        v.tag("terminal:" + str(info["terminal"]))
    v.violations = out
    v.tag("entry:" + case["entry"])
    return v


@st.composite
def hook_fault_case(draw):
    case = draw(case_st())
    case["placement"]["timeline"] = draw(st.sampled_from([True, "instance"]))
    case["entry"] = draw(st.sampled_from([e for e in C.WIDE_ENTRIES if e.endswith(".execute")]))
    site = draw(st.sampled_from(["on_metric", "on_metric", "on_log"]))
    case["placement"]["metric" if site == "on_metric" else "log"] = True
    case["fault"] = [site, draw(st.sampled_from([0, 1, 2, 3, "always", "always"]))]
    return case


def check_hook_fault(case: dict) -> Verdict:
    """The three sinks still receive the same sequence when one of the hooks raises on some or all events."""
    site, j = case["fault"]
    v = Verdict()
    env, cvs = C.run(case, faults={(site, j): "CallbackFault"})
    out: list = []
    fired = any(e[0] == "fault" for e in env.trace)
    for cv in cvs:
        info = oracles.c14(case, cv, out, case["cfg"].get("budget"))
        v.tag("terminal:" + str(info["terminal"]))
    v.violations = out
    v.nontrivial = fired
    v.tag("hook-raised" if fired else "hook-fault-not-reached", f"fault:{site}", "entry:" + case["entry"])
    return v


BREAKER_ENTRIES = [f"{a}Policy{v}.{m}" for a in ("", "Async") for v in ("", ".noretry") for m in ("call", "execute")]


@st.composite
def breaker_case(draw):
    p = dict(PROFILE)
    p["multi_call"] = (2, 6)
    p["abort"] = 0.1
    case = draw(gen.retry_case(p))
    spec = draw(gen.breaker_spec())
    spec["threshold"] = draw(st.sampled_from([1, 1, 2]))
    spec["recovery"] = draw(st.sampled_from([4, 16]))
    case["cfg"]["breaker"] = spec
    case["entries"] = draw(st.lists(st.sampled_from(BREAKER_ENTRIES), min_size=1, max_size=2))
    for c in case["calls"]:
        if gen.chance(draw, 0.5, "c14-adv"):
            c["advance"] = draw(st.sampled_from([1, 4, 16, 17, 64]))
    sinks = draw(st.sampled_from(["both", "both", "metric", "log"]))
    case["placement"] = {"metric": sinks in ("both", "metric"), "log": sinks in ("both", "log")}
    if gen.chance(draw, 0.3, "c14b-op"):
        case["cfg"]["operation"] = draw(st.sampled_from(["fetch", "x"]))
    return case


def check_breaker_events(case: dict) -> Verdict:
    """Breaker transitions and rejections are reported with attempt 0 and the breaker's state."""
    v = Verdict()
    out: list = []
    entries = case["entries"]
    if any(".noretry." in e for e in entries):
        case = {**case, "cfg": {**case["cfg"], "result_classifier": False}}
    env, cvs = C.run(case, entries[0])
    pl = case.get("placement") or {}
    has_m, has_l = pl.get("metric", True), pl.get("log", True)
    op_name = case["cfg"].get("operation", "op")
    transitions = 0
    for cv in cvs:
        evs = cv.events
        expected: list = []  # (event name, state after, class or None)
        for i, e in enumerate(evs):
            if e[0] != "brk":
                continue
            _, method, arg, result, t = e
            if method == "allow":
                name, state = result[2], result[1]
                klass = None
            else:
                name = result
                state = {"circuit_closed": "closed", "circuit_opened": "open"}.get(result)
                klass = arg if method == "record_failure" else None
            if name is not None:
                expected.append((name, state, klass))
        got_m = [e for e in evs if e[0] == "metric" and e[1] in oracles.BREAKER_EVENTS]
        got_l = [e for e in evs if e[0] == "log" and e[1] in oracles.BREAKER_EVENTS]
        transitions += len(expected)
        for sink, got in (("metric", got_m if has_m else None), ("log", got_l if has_l else None)):
            if got is None:
                continue
            names = [g[1] for g in got]
            if names != [x[0] for x in expected]:
                out.append((f"C14:breaker-events:{sink}-sequence", f"call #{cv.j}: breaker reported {[x[0] for x in expected]} but the {sink} hook received {names}"))
                continue
            for g, (name, state, klass) in zip(got, expected):
                if sink == "metric":
                    attempt, sleep_s, tags = g[2], g[3], g[4]
                else:
                    f = dict(g[2])
                    attempt, sleep_s = f.pop("attempt", None), f.pop("sleep_s", None)
                    tags = f
                if attempt != 0 or sleep_s != 0.0:
                    out.append((f"C14:breaker-events:{sink}-attempt", f"{name} reported with attempt={attempt} sleep_s={sleep_s!r} (expected 0 / 0.0)"))
                want = {"state": state, "operation": op_name}
                if klass is not None:
                    want["class"] = klass
                if tags != want:
                    out.append((f"C14:breaker-events:{sink}-tags", f"{name} reported with tags {tags}, expected {want}"))
    v.violations = out
    v.nontrivial = transitions >= 1
    v.tag(f"breaker-events={min(transitions, 4)}")
    return v


PROP = Property(
    id="C14",
    level="exploration",
    rule=(
        "Hypothesis-generated runs (all stop reasons, abort points, handler decisions) with metric hook, log hook or both, "
        "timeline capture on every execute entry. Oracle: the metric sequence matches retry(attempt=1..n)* terminal; terminal is "
        "`success` iff success, else its stop_reason equals the delivered one (or, when call() re-raises, is one of the stop "
        "conditions that hold) and its event name matches; class/err/cause/operation tags describe the final classified "
        "failure; abort events carry only reason+operation; log fields = attempt, sleep_s + tags (+retry_after_s on retry); "
        "timeline = same sequence. Second stream: sequences of 2-6 calls through Policy/AsyncPolicy entry points sharing a "
        "breaker (threshold 1-2, short recovery, clock advances): every transition/rejection the breaker returns must reach both "
        "sinks as that event with attempt 0, sleep_s 0.0 and tags {state, class for failures, operation}. Non-trivial = >= 1 "
        "retry and a non-success terminal, or an abort; for the breaker stream >= 1 breaker event."
    ),
    streams=[
        Stream("grammar", check, strategy=case_st(), quick=14000, thorough=300000),
        Stream("midflight", check, strategy=C.midflight_case(PROFILE, ["max_attempts", "deadline", "per_class", "max_unknown"], C.RECONF_ENTRIES), quick=3000, thorough=60000),
        Stream("sinks_under_hook_faults", check_hook_fault, strategy=hook_fault_case(), quick=4000, thorough=80000),
        Stream("breaker_events", check_breaker_events, strategy=breaker_case(), quick=5000, thorough=100000),
    ],
)
