"""C14 — event stream explains every run: retry* then exactly one terminal event."""
from __future__ import annotations

from hypothesis import strategies as st

from . import _common as C
from .. import gen, oracles
from ..runner import Property, Stream, Verdict

PROFILE = {
    "max_attempts": 6,
    "deadline": 0.3,
    "deadline_aware": True,
    "abort": 0.25,
    "handler": 0.3,
    "budget": 0.25,
    "special": 0.03,
    "special_kinds": ["abort"],
    "overshoot": 0.2,
    "p_retryable": 0.85,
    "max_dur": 16,
    "max_delay_ticks": 32,
}


@st.composite
def case_st(draw):
    case = draw(gen.retry_case(PROFILE))
    pl: dict = {}
    sinks = draw(st.sampled_from(["both", "both", "both", "metric", "log"]))
    pl["metric"] = sinks in ("both", "metric")
    pl["log"] = sinks in ("both", "log")
    case["placement"] = pl
    if gen.chance(draw, 0.3, "c14-op"):
        case["cfg"]["operation"] = draw(st.sampled_from(["fetch", "op2", "x"]))
    case["entry"] = draw(st.sampled_from(C.RETRY_ENTRIES))
    return case


def check(case: dict) -> Verdict:
    v = Verdict()
    env, cvs = C.run(case)
    out: list = []
    for cv in cvs:
        info = oracles.c14(case, cv, out, case["cfg"].get("budget"))
        if (info["retries"] >= 1 and info["terminal"] not in (None, "success")) or info["terminal"] == "aborted":
            v.nontrivial = True
        v.tag("terminal:" + str(info["terminal"]))
    v.violations = out
    v.tag("entry:" + case["entry"])
    return v


PROP = Property(
    id="C14",
    level="exploration",
    rule=(
        "Hypothesis-generated runs (all stop reasons, abort points, handler decisions) with metric hook, log hook or both, "
        "timeline capture on every execute entry. Oracle: the metric sequence matches retry(attempt=1..n)* terminal; terminal is "
        "`success` iff success, else its stop_reason equals the delivered one (or, when call() re-raises, is one of the stop "
        "conditions that hold) and its event name matches; class/err/cause/operation tags describe the final classified "
        "failure; abort events carry only reason+operation; log fields = attempt, sleep_s + tags (+retry_after_s on retry); "
        "timeline = same sequence. Breaker events are checked by C07/C09's policy-level streams. Non-trivial = >= 1 retry and a "
        "non-success terminal, or an abort."
    ),
    streams=[Stream("grammar", check, strategy=case_st(), quick=14000, thorough=300000)],
)
