"""C11 — execute() returns a faithful RetryOutcome and does not raise for failures."""
from __future__ import annotations

from hypothesis import strategies as st

from . import _common as C
from .. import gen, oracles
from ..runner import Property, Stream, Verdict

PROFILE = {
    "max_attempts": 6,
    "deadline": 0.3,
    "deadline_aware": True,
    "abort": 0.25,
    "handler": 0.35,
    "budget": 0.25,
    "special": 0.06,
    "overshoot": 0.2,
    "p_retryable": 0.8,
    "max_dur": 16,
    "max_delay_ticks": 32,
    "attempt_timeout": 0.1,
    "multi_call": (1, 2),
    "offgrid_delays": 0.1,
    "extra_etypes": ["Coded:ECONNRESET", "Coded:card_declined", "Coded:503", "Coded:"],
}
NORETRY = ["Policy.noretry.execute", "AsyncPolicy.noretry.execute"]


@st.composite
def case_st(draw):
    case = draw(gen.retry_case(PROFILE))
    if gen.chance(draw, 0.4, "c11-timeline"):
        case["placement"] = {"timeline": False}
    if gen.chance(draw, 0.25, "c11-breaker"):
        case["cfg"]["breaker"] = draw(gen.breaker_spec())
        case["entry"] = draw(st.sampled_from(["Policy.execute", "AsyncPolicy.execute"] + NORETRY))
    else:
        case["entry"] = draw(st.sampled_from(C.EXECUTE_ENTRIES + ["Retry.from_config.execute", "AsyncRetryPolicy.from_config.execute"]))
    return case


def check(case: dict) -> Verdict:
    v = Verdict()
    has_retry = ".noretry." not in case["entry"]
    if not has_retry:
        # no retry component: no result classifier, every returned value is a success
        case = {**case, "cfg": {**case["cfg"], "result_classifier": False}}
    env, cvs = C.run(case)
    out: list = []
    for cv in cvs:
        info = oracles.c11(case, cv, out, has_retry=has_retry)
        v.nontrivial = v.nontrivial or info["interesting"]
        v.tag(C.reason_tag(cv))
    v.violations = out
    v.tag("entry:" + case["entry"])
    return v


# ---------------------------------------------------------------------------- attempt timeouts that really fire


@st.composite
def timeout_case(draw):
    n = draw(st.sampled_from([2, 3, 4]))
    return {
        "async": draw(st.booleans()),
        "mode": "execute",
        "max_attempts": n,
        # per attempt: "hang" (outlives the attempt timeout), "ok", "fail" (raises at once)
        "script": draw(st.lists(st.sampled_from(["hang", "hang", "ok", "fail"]), min_size=1, max_size=n)),
        "policy": draw(st.sampled_from(["Retry", "Policy", "RetryPolicy"])),
    }


def check_timeouts(case: dict) -> Verdict:
    """Real clock, real threads / event loop: attempts must equal the number of invocations even when
    attempts time out while the operation is still running. The oracle is timing-independent."""
    import asyncio
    import threading

    import redress

    v = Verdict()
    invoked = []
    release = threading.Event()
    script = case["script"]

    class Boom(Exception):
        pass

    def kind(i):
        return script[i] if i < len(script) else script[-1]

    def op():
        i = len(invoked)
        invoked.append(i)
        k = kind(i)
        if k == "hang":
            release.wait(0.4)
            return ("late", i)
        if k == "fail":
            raise Boom()
        return ("value", i)

    async def aop():
        i = len(invoked)
        invoked.append(i)
        k = kind(i)
        if k == "hang":
            await asyncio.sleep(0.4)
            return ("late", i)
        if k == "fail":
            raise Boom()
        return ("value", i)

    kw = dict(classifier=lambda e: redress.ErrorClass.TRANSIENT, strategy=lambda ctx: 0.0, max_attempts=case["max_attempts"], attempt_timeout_s=0.05, deadline_s=30.0)
    try:
        if case["async"]:
            cls = {"Retry": redress.AsyncRetry, "Policy": None, "RetryPolicy": redress.AsyncRetryPolicy}[case["policy"]]
            pol = redress.AsyncPolicy(retry=redress.AsyncRetry(**kw)) if cls is None else cls(**kw)
            loop = asyncio.new_event_loop()
            try:
                out = loop.run_until_complete(pol.execute(aop))
            finally:
                loop.close()
        else:
            cls = {"Retry": redress.Retry, "Policy": None, "RetryPolicy": redress.RetryPolicy}[case["policy"]]
            pol = redress.Policy(retry=redress.Retry(**kw)) if cls is None else cls(**kw)
            out = pol.execute(op)
    except Exception as x:  # noqa: BLE001
        v.fail("C11:timeouts:execute-raised", f"{case}: execute() raised {x!r}")
        release.set()
        return v
    finally:
        release.set()
    n = len(invoked)
    if out.attempts != n:
        v.fail("C11:timeouts:attempts", f"{case}: outcome.attempts={out.attempts} but the operation was invoked {n} times")
    if out.ok and (not isinstance(out.value, tuple) or out.value[0] != "value"):
        v.fail("C11:timeouts:value", f"{case}: ok outcome with value {out.value!r}")
    if not out.ok and out.stop_reason is None:
        v.fail("C11:timeouts:no-stop-reason", f"{case}: {out}")
    v.nontrivial = "hang" in script[: case["max_attempts"]]
    v.tag("real-timeout:" + ("async" if case["async"] else "sync"))
    return v


PROP = Property(
    id="C11",
    level="exploration",
    rule=(
        "Hypothesis-generated (config x script x timings x budget x abort poll index x handler decisions x cancellation-type and nested RetryExhaustedError outcomes) through every execute entry point "
        "(Retry/Policy/RetryPolicy/from_config, sync+async, with/without timeline capture, policies with a breaker, no-retry "
        "policies). Oracle: RetryOutcome fields vs trace (ok/value identity, attempts = #invocations, last_class/cause/exactly "
        "one of last_exception/last_result describe the last classified failure, next_sleep_s set iff deferred, stop_reason in "
        "the set of conditions that hold); only the documented exception kinds escape. Non-trivial = not-ok outcome after >= 2 "
        "classified failures, or a SCHEDULED/ABORTED outcome. A small second stream uses the real clock: attempt_timeout_s=0.05 "
        "with operations that outlive it (sync worker threads / asyncio.wait_for on a real loop); its oracle (attempts == "
        "invocations, ok value from a completed attempt) does not depend on timing."
    ),
    streams=[
        Stream("outcome", check, strategy=case_st(), quick=14000, thorough=300000),
        Stream("real_attempt_timeouts", check_timeouts, strategy=timeout_case(), quick=64, thorough=800, per_shard_min=4),
    ],
)
