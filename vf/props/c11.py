"""C11 — execute() returns a faithful RetryOutcome and does not raise for failures."""
from __future__ import annotations

from hypothesis import strategies as st

from . import _common as C
from .. import gen, oracles
from ..runner import Property, Stream, Verdict

PROFILE = {
    "max_attempts": 6,
    "deadline": 0.3,
    "deadline_aware": True,
    "abort": 0.25,
    "handler": 0.35,
    "budget": 0.25,
    "special": 0.06,
    "overshoot": 0.2,
    "p_retryable": 0.8,
    "max_dur": 16,
    "max_delay_ticks": 32,
    "attempt_timeout": 0.1,
    "multi_call": (1, 2),
}
NORETRY = ["Policy.noretry.execute", "AsyncPolicy.noretry.execute"]


@st.composite
def case_st(draw):
    case = draw(gen.retry_case(PROFILE))
    if gen.chance(draw, 0.4, "c11-timeline"):
        case["placement"] = {"timeline": False}
    if gen.chance(draw, 0.25, "c11-breaker"):
        case["cfg"]["breaker"] = draw(gen.breaker_spec())
        case["entry"] = draw(st.sampled_from(["Policy.execute", "AsyncPolicy.execute"] + NORETRY))
    else:
        case["entry"] = draw(st.sampled_from(C.EXECUTE_ENTRIES + ["Retry.from_config.execute", "AsyncRetryPolicy.from_config.execute"]))
    return case


def check(case: dict) -> Verdict:
    v = Verdict()
    has_retry = ".noretry." not in case["entry"]
    if not has_retry:
        # no retry component: no result classifier, every returned value is a success
        case = {**case, "cfg": {**case["cfg"], "result_classifier": False}}
    env, cvs = C.run(case)
    out: list = []
    for cv in cvs:
        info = oracles.c11(case, cv, out, has_retry=has_retry)
        v.nontrivial = v.nontrivial or info["interesting"]
        v.tag(C.reason_tag(cv))
    v.violations = out
    v.tag("entry:" + case["entry"])
    return v


PROP = Property(
    id="C11",
    level="exploration",
    rule=(
        "Hypothesis-generated (config x script x timings x budget x abort poll index x handler decisions x cancellation-type and nested RetryExhaustedError outcomes) through every execute entry point "
        "(Retry/Policy/RetryPolicy/from_config, sync+async, with/without timeline capture, policies with a breaker, no-retry "
        "policies). Oracle: RetryOutcome fields vs trace (ok/value identity, attempts = #invocations, last_class/cause/exactly "
        "one of last_exception/last_result describe the last classified failure, next_sleep_s set iff deferred, stop_reason in "
        "the set of conditions that hold); only the documented exception kinds escape. Non-trivial = not-ok outcome after >= 2 "
        "classified failures, or a SCHEDULED/ABORTED outcome."
    ),
    streams=[Stream("outcome", check, strategy=case_st(), quick=14000, thorough=300000)],
)
