"""C12 — all entry points agree: sync/async, call/execute, Policy/Retry/sugar."""
from __future__ import annotations

from hypothesis import strategies as st

from . import _common as C
from .. import gen, oracles
from ..runner import Property, Stream, Verdict

PROFILE = {
    "max_attempts": 5,
    "deadline": 0.3,
    "deadline_aware": True,
    "abort": 0.2,
    "handler": 0.3,
    "budget": 0.2,
    "special": 0.05,
    "overshoot": 0.2,
    "p_retryable": 0.85,
    "max_dur": 12,
    "max_delay_ticks": 24,
    "placements": True,
    "attempt_timeout": 0.2,
}

APIS_CALL_ONLY = ["Retry.context", "Policy.context", "RetryPolicy.context", "decorator"]
APIS_BOTH = ["Retry", "Policy", "RetryPolicy", "Retry.from_config", "RetryPolicy.from_config"]


def all_entries() -> list:
    out = []
    for a in ("", "Async"):
        for api in APIS_BOTH:
            head, _, tail = api.partition(".")
            for mode in ("call", "execute"):
                out.append(f"{a}{head}{'.' + tail if tail else ''}.{mode}")
        for api in APIS_CALL_ONLY:
            head, _, tail = api.partition(".")
            if head == "decorator":
                out.append(("a" if a else "") + "decorator.call")
            else:
                out.append(f"{a}{head}.{tail}.call")
    return out


ENTRIES = all_entries()
BREAKER_ENTRIES = [f"{a}Policy{v}.{m}" for a in ("", "Async") for v, ms in (("", ("call", "execute")), (".context", ("call",)), (".proxy", ("call", "execute"))) for m in ms]
NORETRY_ENTRIES = [f"{a}Policy.noretry.{m}" for a in ("", "Async") for m in ("call", "execute")]


def norm_final(cv) -> dict:
    end = oracles.ending(cv)
    k = end["kind"]
    if k == "value":
        return {"kind": "value", "idx": end["idx"]}
    if k == "abort":
        return {"kind": "abort"}
    if k == "propagate":
        return {"kind": "propagate", "type": end["type"], "idx": end["idx"]}
    if k == "circuit_open":
        return {"kind": "circuit_open"}
    if k == "fail":
        if end.get("raised"):
            return {"kind": "fail", "cause": "exception", "exc_idx": end["exc_idx"], "partial": True}
        return {
            "kind": "fail",
            "cause": "exception" if end.get("last_exc_idx") is not None else ("result" if end.get("last_res_idx") is not None else None),
            "exc_idx": end.get("last_exc_idx"),
            "res_idx": end.get("last_res_idx"),
            "reason": end.get("reason"),
            "attempts": end.get("attempts"),
            "last_class": end.get("last_class"),
            "next_sleep_s": repr(end.get("next_sleep_s")),
        }
    return {"kind": k, "type": end.get("type")}


def finals_agree(a: dict, b: dict) -> bool:
    if a.get("partial") or b.get("partial"):
        return a["kind"] == b["kind"] and a.get("cause") == b.get("cause") and a.get("exc_idx") == b.get("exc_idx")
    return a == b


def behaviour(case, entry):
    env, cvs = C.run(case, entry)
    cv = cvs[0]
    # classifier invocations are not part of the property (Policy re-classifies the final exception
    # for the breaker even when none is configured); everything else observable is compared.
    # Attempt hooks (on_attempt_start/on_attempt_end) are not among the interactions the property lists
    # and are known to differ between call() and execute() on abort paths (observation in DESIGN.md).
    full = C.projection(cv)[:-1]
    proj = [x for x in full if x[0] not in ("'classify'", "'rclassify'", "att_start", "att_end")]
    # ...but entry points that deliver the result the same way (call with call, execute with execute) must
    # also invoke the attempt hooks alike: same hook, same moment relative to the operation, same arguments
    cv.hook_proj = [x for x in full if x[0] in ("att_start", "att_end", "op", "op_end")]
    return proj, norm_final(cv), cv


def compare(case, entries, out, v):
    base_entry = entries[0]
    bp, bf, bcv = behaviour(case, base_entry)
    hook_base: dict = {base_entry.rsplit(".", 1)[-1]: (base_entry, bcv.hook_proj)}
    for e in entries[1:]:
        p, f, ecv = behaviour(case, e)
        mode = e.rsplit(".", 1)[-1]
        if mode not in hook_base:
            hook_base[mode] = (e, ecv.hook_proj)
        elif p == bp and ecv.hook_proj != hook_base[mode][1]:
            hb = hook_base[mode][1]
            i = next((i for i, (x, y) in enumerate(zip(hb, ecv.hook_proj)) if x != y), min(len(hb), len(ecv.hook_proj)))
            out.append((f"C12:attempt-hooks:{_family(e)}", f"{hook_base[mode][0]}~{e}: attempt hooks differ at {i}: {hb[i:i+2]} vs {ecv.hook_proj[i:i+2]}"))
        v.evals += 1
        pair = f"{base_entry}~{e}"
        if p != bp:
            i = next((i for i, (x, y) in enumerate(zip(bp, p)) if x != y), min(len(bp), len(p)))
            out.append((f"C12:trace:{_family(e)}", f"{pair}: traces differ at event {i}: {bp[i:i+2]} vs {p[i:i+2]} (lengths {len(bp)}/{len(p)})"))
        elif not finals_agree(bf, f):
            out.append((f"C12:final:{_family(e)}", f"{pair}: same trace but results differ: {bf} vs {f}"))
    return bcv


def _family(entry: str) -> str:
    e = entry.replace("Async", "").replace("adecorator", "decorator")
    return ("async-" if entry.startswith(("Async", "adecorator")) else "sync-") + e


def fix_for_decorator(case: dict) -> dict:
    return case


FAULT_SITES = ["abort_if", "on_attempt_start", "on_attempt_end", "classifier", "result_classifier", "strategy", "sleeper", "handler"]


def check_twins_under_fault(case: dict) -> Verdict:
    """A caller-supplied callback raises an ordinary exception at its j-th invocation: whatever the
    library makes of that, the sync and the async twin of each entry point must make the same of it."""
    v = Verdict()
    out: list = []
    site, j = case["fault"]
    for api in ("Retry", "Policy", "RetryPolicy"):
        for mode in ("call", "execute"):
            a, b = f"{api}.{mode}", f"Async{api}.{mode}"
            res = []
            for e in (a, b):
                env, cvs = C.run(case, e, faults={(site, j): "CallbackFault"})
                cv = cvs[0]
                proj = [x for x in C.projection(cv)[:-1] if x[0] not in ("'classify'", "'rclassify'", "att_start", "att_end")]
                res.append((proj, norm_final(cv), any(ev[0] == "fault" for ev in env.trace)))
                v.evals += 1
            (pa, fa, hit_a), (pb, fb, hit_b) = res
            if pa != pb:
                i = next((i for i, (x, y) in enumerate(zip(pa, pb)) if x != y), min(len(pa), len(pb)))
                out.append((f"C12:fault-twins:{site}:{mode}", f"{a}~{b} with {site}#{j} raising: traces differ at event {i}: {pa[i:i+2]} vs {pb[i:i+2]} (lengths {len(pa)}/{len(pb)})"))
            elif not finals_agree(fa, fb):
                out.append((f"C12:fault-twins:{site}:{mode}:final", f"{a}~{b} with {site}#{j} raising: same trace but results differ: {fa} vs {fb}"))
            v.nontrivial = v.nontrivial or hit_a
    v.violations = out
    v.tag("fault-site:" + site)
    return v


@st.composite
def fault_case(draw):
    case = draw(gen.retry_case({**PROFILE, "placements": False, "attempt_timeout": 0.0, "abort": 0.5}))
    case["placement"] = {"attempt_hooks": "call", "sleeper_flavour": "async", "before_flavour": "async"}
    case["fault"] = [draw(st.sampled_from(FAULT_SITES)), draw(st.sampled_from([0, 0, 1, 2, 3]))]
    if case["fault"][0] == "abort_if" and case["calls"][0].get("abort") is None:
        case["calls"][0]["poll"] = True
    return case


def check(case: dict) -> Verdict:
    v = Verdict()
    out: list = []
    if case.get("group") == "midflight":
        entries = [e for e in ENTRIES if "decorator" not in e]  # @retry exposes no policy object to rebind
    elif case.get("group") == "breaker":
        entries = BREAKER_ENTRIES
    elif case.get("group") == "noretry":
        entries = NORETRY_ENTRIES
        case = {**case, "cfg": {**case["cfg"], "result_classifier": False}}
    else:
        entries = ENTRIES
    cv = compare(case, entries, out, v)
    retries = sum(len(a.metrics("retry")) for a in cv.atts)
    v.nontrivial = retries >= 1 or case.get("group") in ("breaker", "noretry")
    v.tag("group:" + case.get("group", "plain"), C.reason_tag(cv), f"retries={min(retries, 3)}")
    v.violations = out
    return v


@st.composite
def case_st(draw):
    case = draw(gen.retry_case(PROFILE))
    pl = case.get("placement") or {}
    # attempt hooks at policy level cannot be expressed by from_config / decorator: keep them per call or absent
    if pl.get("attempt_hooks") == "policy":
        pl["attempt_hooks"] = "call"
    # async-only callback flavours do not exist on sync entry points; compare like with like
    # (sync entry points always get plain functions; async ones get any of the async callback shapes,
    # which must all behave like the sync twin)
    pl["sleeper_flavour"] = draw(st.sampled_from(["async", "async", "awaitable", "awaitable_obj", "gen_coroutine", "sync"]))
    pl["before_flavour"] = draw(st.sampled_from(["async", "async", "awaitable", "awaitable_obj", "gen_coroutine", "sync"]))
    case["placement"] = pl
    if case["cfg"].get("budget") is not None and gen.chance(draw, 0.3, "c12-late-budget"):
        case["cfg"]["budget"]["late"] = True  # handed over by attribute assignment where the entry point has an object
    grp = draw(st.sampled_from(["plain"] * 6 + ["breaker"] * 3 + ["noretry"] + ["midflight"]))
    if grp == "midflight":
        # public attributes are rebound while the call is backing off: every entry point must react alike
        case["group"] = "midflight"
        spec = {}
        for k in draw(st.lists(st.sampled_from(["max_attempts", "deadline", "per_class", "max_unknown"]), min_size=1, max_size=2, unique=True)):
            spec[k] = {"max_attempts": draw(st.sampled_from([1, 2, 4, 9])), "deadline": draw(st.integers(1, 128)), "per_class": {"TRANSIENT": draw(st.sampled_from([0, 1]))}, "max_unknown": draw(st.sampled_from([0, 1]))}[k]
        case["calls"][0]["midflight"] = {"at_sleep": draw(st.sampled_from([0, 1])), "set": spec}
        return case
    if grp != "plain":
        case["group"] = grp
        case["cfg"]["breaker"] = draw(gen.breaker_spec())
        if grp == "breaker":
            # make the breaker interaction matter: low threshold, classes that trip, and often a deciding handler
            spec = case["cfg"]["breaker"]
            spec["threshold"] = draw(st.sampled_from([1, 1, 2]))
            if gen.chance(draw, 0.6, "c12-trip"):
                spec["trip_on"] = list(gen.ALL)
            if case["calls"][0].get("handler") is None and gen.chance(draw, 0.5, "c12-handler"):
                case["calls"][0]["handler"] = draw(st.lists(st.sampled_from(["sleep", "sleep", "defer", "defer", "abort"]), min_size=1, max_size=4))
        if grp == "noretry":
            case["placement"] = {"attempt_hooks": pl.get("attempt_hooks", "call")}
    return case


# ---------------------------------------------------------------------------- real clock: attempt_timeout_s rebound mid-run


@st.composite
def live_timeout_case(draw):
    return {"hang_at": draw(st.sampled_from([2, 2, 3])), "set_at_sleep": draw(st.sampled_from([0, 0, 1])), "new_timeout": draw(st.sampled_from([0.05, 0.08])), "initial": draw(st.sampled_from([None, None, 30.0]))}


def check_live_timeout(case: dict) -> Verdict:
    """attempt_timeout_s is assigned while a run is in flight (a config reload from the sleeper). Whatever the
    library does with the new value (use it at once, or from the next run on), all four entry points must do
    the same: same number of invocations, same kind of result."""
    import asyncio
    import threading

    import redress

    v = Verdict()
    results = {}
    for name in ("Retry.call", "Retry.execute", "AsyncRetry.call", "AsyncRetry.execute"):
        is_async = name.startswith("Async")
        mode = name.split(".")[1]
        n = {"op": 0, "sleep": 0}
        release = threading.Event()
        kw = dict(classifier=lambda e: redress.ErrorClass.TRANSIENT, strategy=lambda ctx: 0.0, max_attempts=4, deadline_s=60.0, attempt_timeout_s=case["initial"])
        pol = (redress.AsyncRetry if is_async else redress.Retry)(**kw)

        def on_sleep():
            if n["sleep"] == case["set_at_sleep"]:
                pol.attempt_timeout_s = case["new_timeout"]
            n["sleep"] += 1

        def op():
            n["op"] += 1
            if n["op"] == 1:
                raise ConnectionError("first")
            if n["op"] == case["hang_at"]:
                release.wait(0.4)
                return "late"
            if n["op"] < case["hang_at"]:
                raise ConnectionError("again")
            return "ok"

        async def aop():
            n["op"] += 1
            if n["op"] == 1:
                raise ConnectionError("first")
            if n["op"] == case["hang_at"]:
                await asyncio.sleep(0.4)
                return "late"
            if n["op"] < case["hang_at"]:
                raise ConnectionError("again")
            return "ok"

        def sleeper(s):
            on_sleep()

        async def asleeper(s):
            on_sleep()

        try:
            if is_async:
                loop = asyncio.new_event_loop()
                try:
                    r = loop.run_until_complete(getattr(pol, mode)(aop, sleeper=asleeper))
                finally:
                    loop.close()
            else:
                r = getattr(pol, mode)(op, sleeper=sleeper)
            val = r.value if isinstance(r, redress.RetryOutcome) else r
            ok = r.ok if isinstance(r, redress.RetryOutcome) else True
            results[name] = (n["op"], "value" if ok else "fail", val if ok else None)
        except Exception as x:  # noqa: BLE001
            results[name] = (n["op"], "raise", type(x).__name__)
        finally:
            release.set()
        v.evals += 1
    base = results["Retry.call"]
    for name, r in results.items():
        if r != base:
            v.fail(f"C12:live-timeout:{name}", f"{case}: attempt_timeout_s assigned mid-run: Retry.call -> {base} but {name} -> {r} (invocations, result)")
    v.nontrivial = True
    v.tag("real-midflight-timeout")
    return v


PROP = Property(
    id="C12",
    level="exploration",
    rule=(
        "One Hypothesis-generated case (config, script, timings, budget, abort index, handler decisions, callback placements) is "
        "run through 28 entry points (Retry, Policy, RetryPolicy, from_config of each, .context() of each, @retry; call and "
        "execute where offered; sync and async) and every complete trace (invocations, strategy contexts, "
        "polls, handler/before_sleep/sleeper calls, budget calls, both event sinks) must equal the Retry.call "
        "trace; the final results must agree after call/execute normalisation. Cases with a breaker compare the 6 Policy "
        "entry points (incl. breaker calls and events); no-retry policies compare their 4 entry points. Non-trivial = case "
        "with >= 1 granted retry, or a breaker / no-retry group case. evaluations counts runs (cases x entry points)."
    ),
    streams=[
        Stream("pairwise", check, strategy=case_st(), quick=4000, thorough=60000),
        Stream("twins_under_callback_fault", check_twins_under_fault, strategy=fault_case(), quick=1200, thorough=30000),
        Stream("live_attempt_timeout", check_live_timeout, strategy=live_timeout_case(), quick=32, thorough=300, per_shard_min=2),
    ],
)
