"""C20 — Retry-After hints are parsed safely and honoured exactly."""
from __future__ import annotations

import datetime as dt
import email.utils
import math
import os
import re
import subprocess
import sys
from pathlib import Path

from hypothesis import strategies as st

from .. import bootstrap

bootstrap.install()

from redress import Classification, ErrorClass, Retry, AsyncRetry, http_retry_after_classifier, retry_after_or  # noqa: E402

from .. import gen  # noqa: E402
from ..harness import VClock, drive, g  # noqa: E402
from ..runner import ROOT, Property, Stream, Verdict, enc  # noqa: E402

UTC = dt.timezone.utc
ASCII_INT = re.compile(r"^[+-]?[0-9]+$")
ASCII_WS = " \t\n\r\x0b\x0c"


class HttpErr(Exception):
    pass


class GetOnly:
    """Header container that only offers .get (case-sensitive)."""

    def __init__(self, d):
        self._d = d

    def get(self, k, default=None):
        return self._d.get(k, default)


class GetItems(GetOnly):
    def items(self):
        return self._d.items()


class GetItemsIter(GetOnly):
    """items() hands out a one-shot iterator (a generator over the wire headers)."""

    def items(self):
        return iter(list(self._d.items()))


class Exploding:
    def get(self, k, default=None):
        raise RuntimeError("boom")

    def items(self):
        raise RuntimeError("boom")

    def __iter__(self):
        raise RuntimeError("boom")


class Resp:
    def __init__(self, headers):
        self.headers = headers


def render_date(spec: dict):
    """-> (header string, aware datetime it denotes)"""
    d = dt.datetime(spec["y"], spec["mo"], spec["d"], spec["h"], spec["mi"], spec["s"])
    style = spec["style"]
    if style == "gmt":
        aware = d.replace(tzinfo=UTC)
        return email.utils.format_datetime(aware, usegmt=True), aware
    if style == "offset":
        tz = dt.timezone(dt.timedelta(minutes=spec.get("off", 0)))
        aware = d.replace(tzinfo=tz)
        return email.utils.format_datetime(aware), aware
    if style == "naive":
        aware = d.replace(tzinfo=UTC)
        return d.strftime("%a, %d %b %Y %H:%M:%S"), aware
    if style == "rfc850":
        aware = d.replace(tzinfo=UTC)
        return d.strftime("%A, %d-%b-%Y %H:%M:%S GMT"), aware
    if style == "asctime":
        aware = d.replace(tzinfo=UTC)
        return d.strftime("%a %b %d %H:%M:%S %Y"), aware
    raise ValueError(style)


class QuotaExceeded(HttpErr, __import__("redress").RateLimitError):
    """Rate limited according to the SDK's own marker type; no numeric status at all."""


def build_exc(case: dict, value):
    e = HttpErr("rate limited")
    via = case.get("status_via", "status")
    status = case.get("status", 429)
    if via == "marker":
        e = QuotaExceeded("rate limited")
    elif via == "args":
        e = HttpErr("rate limited", status)
    else:
        setattr(e, via, status)
    shape = case["shape"]
    key = case.get("key", "Retry-After")
    if shape == "attr":
        e.retry_after = value
    elif shape == "dict":
        e.headers = {key: value}
    elif shape == "dict_extra":
        e.headers = {"Content-Type": "x", 5: "y", key: value}
    elif shape == "pairs":
        e.headers = [("X", "1"), (key, value)]
    elif shape == "get_only":
        e.headers = GetOnly({key: value})
    elif shape == "get_items":
        e.headers = GetItems({key: value})
    elif shape == "get_items_iter":
        e.headers = GetItemsIter({"Content-Type": "x", key: value})
    elif shape == "pairs_gen":
        e.headers = ((k, v) for k, v in [("X", "1"), (key, value)])  # one-shot iterables of pairs
    elif shape == "pairs_iter":
        e.headers = iter([("X", "1"), (key, value)])
    elif shape == "pairs_zip":
        e.headers = zip(["X", key], ["1", value])
    elif shape == "response":
        e.response = Resp({key: value})
    elif shape == "response_pairs":
        e.response = Resp([(key, value)])
    elif shape == "empty_headers_and_response":
        e.headers = case.get("empty", {})  # SDK errors often default headers to an empty container
        e.response = Resp({key: value})
    elif shape == "exploding":
        e.headers = Exploding()
    elif shape == "attr_and_header":
        e.retry_after = case.get("attr_value")
        e.headers = {key: value}
    else:
        raise ValueError(shape)
    return e


def visible(case: dict) -> bool:
    """Whether the documented lookup can see the header at all in this shape/casing."""
    shape, key = case["shape"], case.get("key", "Retry-After")
    if shape == "exploding":
        return False
    if shape == "get_only":
        return key in ("Retry-After", "retry-after")
    return True


def expectation(value, now_before: dt.datetime, now_after: dt.datetime, aware: dt.datetime | None, from_attr: bool):
    """-> ('none',) | ('exact', x) | ('range', lo, hi) | ('either', x) | ('any',)"""
    if aware is not None:
        lo = max(0.0, (aware - now_after).total_seconds())
        hi = max(0.0, (aware - now_before).total_seconds())
        return ("range", lo, hi)
    if from_attr and isinstance(value, (int, float)):
        if isinstance(value, float) and math.isnan(value):
            return ("any",)
        try:
            return ("exact", max(0.0, float(value)))
        except OverflowError:
            return ("any",)  # outside float range: no hint or any non-negative number
    if from_attr and not isinstance(value, str):
        return ("none",)
    s = value if isinstance(value, str) else str(value)
    core = s.strip(ASCII_WS)
    if ASCII_INT.match(core):
        if len(core) > 4300:
            return ("any",)  # beyond the interpreter's int<->str conversion limit
        n = int(core)
        try:
            return ("exact", float(max(n, 0)))
        except OverflowError:
            return ("any",)
    # other forms Python accepts as integers (Unicode whitespace such as \x1c-\x1f around the digits,
    # underscores, Unicode digits): either reading is fine
    for cand in (s, s.strip()):
        try:
            n = int(cand)
        except ValueError:
            continue
        try:
            return ("either", float(max(n, 0)))
        except OverflowError:
            return ("any",)
    # a date as far as the standard library is concerned?
    try:
        parsed = email.utils.parsedate_to_datetime(s.strip())
    except (TypeError, ValueError, IndexError, OverflowError):
        parsed = None
    if parsed is None:
        return ("none",)
    if parsed.tzinfo is None:
        parsed = parsed.replace(tzinfo=UTC)
    try:
        lo = max(0.0, (parsed - now_after).total_seconds())
        hi = max(0.0, (parsed - now_before).total_seconds())
    except OverflowError:
        return ("any",)
    return ("range", lo, hi)


def check_parse(case: dict) -> Verdict:
    v = Verdict()
    aware = None
    if "date" in case:
        value, aware = render_date(case["date"])
        if case.get("pad"):
            value = case["pad"][0] + value + case["pad"][1]
    else:
        value = case["value"]
    exc = build_exc(case, value)
    desc = f"shape={case['shape']} key={case.get('key')!r} value={_short(value)}" + (f" TZ={case['tz']}" if case.get("tz") else "")
    import time as _time

    old_tz = os.environ.get("TZ")
    if case.get("tz"):
        os.environ["TZ"] = case["tz"]  # the client process need not run in UTC
        _time.tzset()
    try:
        return _check_parse(case, value, aware, exc, desc, v)
    finally:
        if case.get("tz"):
            if old_tz is None:
                os.environ.pop("TZ", None)
            else:
                os.environ["TZ"] = old_tz
            _time.tzset()


def _check_parse(case, value, aware, exc, desc, v):
    before = dt.datetime.now(UTC)
    try:
        got = http_retry_after_classifier(exc)
    except Exception as x:  # noqa: BLE001 - "never raises" is the property
        site = "attr" if case["shape"] in ("attr", "attr_and_header") and isinstance(value if case["shape"] == "attr" else case.get("attr_value"), (int, float)) else "header"
        v.fail(f"C20:raises:{type(x).__name__}:{site}", f"http_retry_after_classifier raised {type(x).__name__}: {str(x)[:80]} for {desc}")
        v.nontrivial = True
        return v
    after = dt.datetime.now(UTC)
    if case.get("status", 429) != 429:
        if not isinstance(got, ErrorClass):
            v.fail("C20:non-429-not-plain", f"status {case.get('status')} gave {got!r}")
        return v
    hint = None
    if isinstance(got, Classification):
        if got.klass is not ErrorClass.RATE_LIMIT:
            v.fail("C20:wrong-class", f"429 classified as {got.klass} for {desc}")
        hint = got.retry_after_s
    elif got is not ErrorClass.RATE_LIMIT:
        v.fail("C20:wrong-class", f"429 classified as {got!r} for {desc}")
    if hint is not None and not (isinstance(hint, float) and hint >= 0.0):
        v.fail("C20:hint-not-nonnegative-float", f"retry_after_s={hint!r} for {desc}")
        return v
    from_attr = case["shape"] == "attr"
    if case["shape"] == "attr_and_header":
        # the attribute wins when it yields a hint; either source is acceptable to this oracle
        exp_a = expectation(case.get("attr_value"), before, after, None, True)
        exp_h = expectation(value, before, after, aware, False)
        ok = _matches(hint, exp_a) or _matches(hint, exp_h)
        if not ok:
            v.fail("C20:hint-value", f"retry_after_s={hint!r} matches neither the attribute ({exp_a}) nor the header ({exp_h}) for {desc}")
        elif exp_a == ("none",) and not _matches(hint, exp_h):
            # an attribute that carries no hint (None, garbage text, a non-number) must not hide the hint
            # the server did send in the header
            v.fail("C20:header-hidden-by-useless-attribute", f"retry_after_s={hint!r} although the attribute carries no hint and the header gives {exp_h} for {desc}")
    elif not visible(case):
        if hint is not None:
            v.fail("C20:hint-from-nowhere", f"retry_after_s={hint!r} although no header is visible for {desc}")
    else:
        exp = expectation(value, before, after, aware, from_attr)
        if not _matches(hint, exp):
            kind = "date" if aware is not None else ("digits" if isinstance(value, str) and ASCII_INT.match(value.strip(ASCII_WS) or "x") else "other")
            v.fail(f"C20:hint-value:{kind}", f"retry_after_s={hint!r}, expected {exp} for {desc}")
    s = value if isinstance(value, str) else ""
    v.nontrivial = len(s) >= 20 or aware is not None or case["shape"] not in ("dict", "attr") or not isinstance(value, str)
    v.tag("shape:" + case["shape"], "date" if aware is not None else ("digits" if isinstance(value, str) and value.strip().lstrip("+-").isdigit() else type(value).__name__))
    if isinstance(value, str) and len(value) >= 300:
        v.tag("digits>=300" if value.strip().isdigit() else "long-text")
    return v


def _matches(hint, exp) -> bool:
    k = exp[0]
    if k == "any":
        return hint is None or (isinstance(hint, float) and not math.isnan(hint) and hint >= 0)
    if k == "none":
        return hint is None
    if k == "exact":
        return hint is not None and hint == exp[1]
    if k == "either":
        return hint is None or hint == exp[1]
    if k == "range":
        return hint is not None and exp[1] <= hint <= exp[2]
    return False


def _short(v):
    r = repr(v)
    return r if len(r) <= 80 else f"{r[:40]}...({len(r)} chars)"


# ---------------------------------------------------------------------------- generators

SHAPES = ["attr", "dict", "dict", "dict_extra", "pairs", "get_only", "get_items", "response", "response_pairs", "exploding", "attr_and_header", "empty_headers_and_response", "get_items_iter", "pairs_gen", "pairs_iter", "pairs_zip"]
KEYS = ["Retry-After", "retry-after", "RETRY-AFTER", "ReTrY-aFtEr", "Retry-after"]


def digits_st():
    lengths = st.one_of(st.integers(1, 5), st.integers(1, 40), st.sampled_from([307, 308, 309, 310, 400, 1000, 4299, 4300, 4301, 5000]))
    body = lengths.flatmap(lambda n: st.text(alphabet="0123456789", min_size=n, max_size=n))
    sign = st.sampled_from(["", "", "", "+", "-"])
    pad = st.sampled_from(["", "", " ", "\t", "  ", "\n"])
    return st.tuples(pad, sign, body, pad).map(lambda t: t[0] + t[1] + t[2] + t[3])


def odd_numbers_st():
    return st.sampled_from(["1_000", "١٢٣", "１２", "0x10", "1e3", "1.5", "12.0", " 7 ", "+ 5", "--3", "1 2", "0b1", "٠", " " + "5", "5 ", "", " ", "inf", "nan", "Infinity", "-0", "+0", "00012"])


def date_st():
    return st.fixed_dictionaries(
        {
            "y": st.one_of(st.integers(1990, 2100), st.integers(100, 9999), st.sampled_from([100, 1000, 1969, 1970, 2038, 9999])),
            "mo": st.integers(1, 12),
            "d": st.integers(1, 28),
            "h": st.integers(0, 23),
            "mi": st.integers(0, 59),
            "s": st.integers(0, 59),
            "style": st.sampled_from(["gmt", "gmt", "offset", "naive", "rfc850", "asctime"]),
            "off": st.integers(-14 * 60, 14 * 60),
        }
    )


def near_now_date_st():
    """Dates within +/- 2 hours of the real now (clamp at 0 is exercised on both sides), in every style."""

    def mk(t):
        delta, style = t
        d = dt.datetime.now(UTC).replace(microsecond=0) + dt.timedelta(seconds=delta)
        return {"y": d.year, "mo": d.month, "d": d.day, "h": d.hour, "mi": d.minute, "s": d.second, "style": style, "off": 0}

    return st.tuples(st.integers(-7200, 7200), st.sampled_from(["gmt", "gmt", "naive", "asctime", "rfc850"])).map(mk)


def garbage_st():
    return st.one_of(
        st.text(max_size=40),
        st.sampled_from(["soon", "Wed, 99 Foo 2025", "Fri, 31 Feb 2030 10:00:00 GMT", "2030-01-01T00:00:00Z", "Thu, 01 Jan 1970", "Mon, 01 Jan 0068 00:00:00 GMT", "1 Jan 2030 00:00:00 +9999", ",", "()", "Tue, 1 Jan 2030 25:00:00 GMT"]),
        st.binary(max_size=12).map(lambda b: b.decode("latin-1")),
    )


def nonstring_st():
    return st.one_of(
        st.integers(-5, 10**6),
        st.sampled_from([0, -1, 10**308, 10**309, 10**400, -(10**400), True, False]),
        st.floats(allow_nan=True, allow_infinity=True),
        st.sampled_from([0.0, -0.0, 1.5, float("nan"), float("inf"), -float("inf"), 1e308]),
        st.binary(max_size=6),
        st.lists(st.integers(0, 9), max_size=3),
        st.none(),
    )


@st.composite
def parse_case(draw):
    case: dict = {"shape": draw(st.sampled_from(SHAPES)), "key": draw(st.sampled_from(KEYS)), "status_via": draw(st.sampled_from(["status", "status", "status_code", "code", "args", "marker"]))}
    if case["status_via"] != "marker" and gen.chance(draw, 0.05, "c20-non429"):
        case["status"] = draw(st.sampled_from([500, 503, 400, 200]))
    kind = draw(st.sampled_from(["digits", "digits", "digits", "odd", "date", "date", "neardate", "garbage", "nonstring"]))
    if kind in ("date", "neardate"):
        case["date"] = draw(date_st() if kind == "date" else near_now_date_st())
        if gen.chance(draw, 0.4, "c20-tz"):
            case["tz"] = draw(st.sampled_from(["JST-9", "EST5EDT", "UTC", "NZST-12", "HST10"]))
        if gen.chance(draw, 0.3, "c20-pad"):
            case["pad"] = draw(st.sampled_from([[" ", ""], ["", " "], ["  ", "\t"]]))
    elif kind == "digits":
        case["value"] = draw(digits_st())
    elif kind == "odd":
        case["value"] = draw(odd_numbers_st())
    elif kind == "garbage":
        case["value"] = draw(garbage_st())
    else:
        case["value"] = draw(nonstring_st())
    if case["shape"] == "attr_and_header":
        case["attr_value"] = draw(st.one_of(nonstring_st(), digits_st(), garbage_st(), st.sampled_from(["", "   ", "soon", "None", None, b"5", "n/a"])))
    if case["shape"] == "empty_headers_and_response":
        case["empty"] = draw(st.sampled_from([{}, [], (), ""]))
    return case


def enum_digit_lengths(tier: str):
    top = 600 if tier == "quick" else 5000
    for n in list(range(1, top + 1)) + [4299, 4300, 4301, 4999, 5000]:
        for lead in ("1", "9"):
            s = lead + "0" * (n - 1)
            for shape in ("dict", "attr", "pairs"):
                yield {"shape": shape, "key": "Retry-After", "value": s}
    for k in list(range(0, 420, 7)) + [307, 308, 309, 310, 400]:
        for shape in ("attr",):
            yield {"shape": shape, "key": "Retry-After", "value": 10**k}
            yield {"shape": shape, "key": "Retry-After", "value": -(10**k)}


# ---------------------------------------------------------------------------- end to end


@st.composite
def e2e_case(draw):
    return {
        "n": draw(st.one_of(st.integers(0, 8), st.integers(0, 300), st.sampled_from([0, 1, 2, 64]))),
        "as": draw(st.sampled_from(["header", "header", "attr_int", "attr_float", "header_lower", "pairs"])),
        "jitter": draw(st.sampled_from([0.0, 0.25, 0.5, 1.0, -1.0, 2.0])),
        "r": draw(st.one_of(st.sampled_from([0.0, 0.5, 1.0 - 2.0**-53]), st.floats(0, 1, exclude_max=True))),
        "deadline": draw(st.one_of(st.none(), st.integers(1, 64 * 400))),
        "dur": draw(st.integers(0, 32)),
        "fallback": draw(st.sampled_from([0.0, 0.5, 1000.0, float("nan")])),
        "async": draw(st.booleans()),
        "mode": draw(st.sampled_from(["call", "execute"])),
        # further 429s in the same run, each with its own hint; the client may re-raise one stored error object
        "more": draw(st.one_of(st.just([]), st.lists(st.one_of(st.integers(0, 8), st.integers(0, 300)), max_size=2))),
        "same_obj": draw(st.booleans()),
        # failures of OTHER retryable classes (503 -> SERVER_ERROR, 409 -> CONCURRENCY, no hint) before / between the
        # 429s, with retry_after_or registered for RATE_LIMIT only next to a different strategy for the other classes
        "mixed": draw(st.one_of(st.just(None), st.fixed_dictionaries({
            "where": st.lists(st.integers(0, 3), min_size=1, max_size=2),
            "status": st.sampled_from([503, 409, 500]),
            "other": st.sampled_from([0.0, 0.015625, 0.5]),
            "via": st.sampled_from(["strategies", "strategies+default"]),
        }))),
    }


def check_e2e(case: dict) -> Verdict:
    v = Verdict()
    clock = VClock(None)
    hints = [case["n"]] + list(case.get("more") or [])
    mixed = case.get("mixed")
    if mixed:
        for pos in sorted(mixed["where"]):
            hints.insert(min(pos, len(hints)), None)  # None = a failure of another class, carrying no hint
    slept: list = []
    fails: list = []
    calls = {"n": 0}
    shared: dict = {}
    jit = case["jitter"]

    def set_hint(e, n):
        how = case["as"]
        if how == "header":
            e.headers = {"Retry-After": str(n)}
        elif how == "header_lower":
            e.headers = {"retry-after": f" {n} "}
        elif how == "pairs":
            e.response = Resp([("Retry-After", str(n))])
        elif how == "attr_int":
            e.retry_after = n
        else:
            e.retry_after = float(n)
        return e

    def make_exc(n):
        if n is None:
            e = HttpErr(str(mixed["status"]))
            e.status = mixed["status"]
            return e
        e = HttpErr("429")
        e.status = 429
        return set_hint(e, n)

    def op():
        calls["n"] += 1
        clock.t += g(case["dur"])
        k = calls["n"] - 1
        if k < len(hints):
            fails.append(clock.rel())  # seconds: later failures need not fall on the tick grid
            if case.get("same_obj") and k > 0 and hints[k] is not None and hints[k - 1] is not None:
                e = set_hint(shared["e"], hints[k])  # a client re-raising its stored error with the fresh response
            else:
                e = shared["e"] = make_exc(hints[k])
            raise e
        return "ok"

    async def aop():
        return op()

    def sleeper(s):
        slept.append((s, clock.rel_ticks()))
        clock.t += s

    async def asleeper(s):
        sleeper(s)

    bootstrap.set_clock(clock)
    bootstrap.set_draw(case["r"])
    try:
        kw = dict(
            classifier=http_retry_after_classifier,
            max_attempts=len(hints) + 2,
            deadline_s=1.0e6 if case["deadline"] is None else g(case["deadline"]),
        )
        hinted = retry_after_or(lambda ctx: case["fallback"], jitter_s=jit)
        if mixed:
            kw["strategies"] = {ErrorClass.RATE_LIMIT: hinted}
            if mixed["via"] == "strategies":
                kw["strategies"][ErrorClass.SERVER_ERROR] = kw["strategies"][ErrorClass.CONCURRENCY] = lambda ctx: mixed["other"]
            else:
                kw["strategy"] = lambda ctx: mixed["other"]
        else:
            kw["strategy"] = hinted
        try:
            if case["async"]:
                pol = AsyncRetry(**kw)
                drive(getattr(pol, case["mode"])(aop, sleeper=asleeper))
            else:
                pol = Retry(**kw)
                getattr(pol, case["mode"])(op, sleeper=sleeper)
        except HttpErr:
            pass
    finally:
        bootstrap.set_clock(None)
        bootstrap.set_draw(None)
    D = 1.0e6 if case["deadline"] is None else g(case["deadline"])
    clamped = False
    for k, t_fail in enumerate(fails):
        n = hints[k]
        rem = D - t_fail
        edge = 1e-6 if k else 0.0  # timedelta resolution again: within a microsecond of the deadline either reading is fine
        if rem <= edge:
            if len(slept) > k and rem <= -edge:
                v.fail("C20:e2e:sleep-after-deadline", f"{case}: slept {slept} although the deadline had passed at failure {k + 1}")
            break
        if n is None:  # not a hinted failure: only its position in the run matters here
            if len(slept) <= k:
                break
            continue
        if len(slept) <= k:
            v.fail("C20:e2e:no-wait", f"{case}: 429 #{k + 1} with Retry-After {n} was not followed by a wait (calls={calls['n']}, slept {slept})")
            break
        s = slept[k][0]
        # the library keeps elapsed/remaining time as timedelta: the deadline clamp has microsecond resolution
        # (exact for failures on the 1/64 s grid, i.e. the first one; later ones follow an arbitrary wait)
        tol = 1e-6 if k else 0.0
        lo = min(rem - tol, float(n))
        hi = min(rem + tol, float(n) + max(0.0, jit))
        clamped = clamped or rem < n
        if not (lo <= s <= hi):
            v.fail("C20:e2e:wait-bounds" + (":later-failure" if k else ""), f"{case}: after 429 #{k + 1} waited {s!r}s, expected between min(remaining, hint)={lo!r} and min(remaining, hint+jitter)={hi!r}")
            break
    v.nontrivial = clamped or case["as"] != "header" or case["r"] in (0.0, 1.0 - 2.0**-53) or len(fails) > 1
    v.tag("clamped-by-remaining" if clamped else "unclamped", "as:" + case["as"], f"failures={len(fails)}")
    if case.get("same_obj") and len(fails) > 1:
        v.tag("same-exception-object-new-hint")
    if mixed and any(h is None for h in hints[: len(fails)]) and any(h is not None for h in hints[1 : len(fails)]):
        v.tag("429-after-failure-of-another-class")
    return v


# ---------------------------------------------------------------------------- Atheris campaign


def run_atheris_structured(tier: str, seed: int, shard) -> dict:
    return run_atheris(tier, seed, shard, target="c20_hypo_target.py", runs=(12_000 if tier == "quick" else 400_000), tag="structured")


def run_atheris(tier: str, seed: int, shard, target: str = "c20_target.py", runs: int | None = None, tag: str = "bytes") -> dict:
    """One libFuzzer campaign per shard (own corpus dir); a crash file is the replay unit."""
    sh, nsh = shard
    if runs is None:
        runs = 150_000 if tier == "quick" else 4_000_000
    work = ROOT / ".work" / "C20" / f"atheris-{tag}-{sh}"
    if work.exists():
        import shutil

        shutil.rmtree(work)
    work.mkdir(parents=True)
    corpus = work / "corpus"
    corpus.mkdir()
    seeded = sh % 2 == 0 and tag == "bytes"  # half of the shards start from valid examples, half from the empty corpus
    if seeded:
        for i, s in enumerate(["120", "Wed, 21 Oct 2015 07:28:00 GMT", "Wed, 21 Oct 2015 07:28:00", "-5", " 7 ", "Sunday, 06-Nov-94 08:49:37 GMT", "Sun Nov  6 08:49:37 1994"]):
            (corpus / f"seed{i}").write_text(s)
    env = dict(os.environ)
    cmd = [sys.executable, str(ROOT / "fuzz" / target), f"-runs={runs}", f"-seed={seed * 100 + sh + 1}", "-max_len=128", f"-artifact_prefix={work}/crash-", "-print_final_stats=1", str(corpus)]
    r = subprocess.run(cmd, capture_output=True, text=True, env=env, timeout=3600)
    text = r.stdout + r.stderr
    execs = 0
    cov = 0
    m = re.findall(r"stat::number_of_executed_units:\s*(\d+)", text)
    if m:
        execs = int(m[-1])
    m = re.findall(r"cov: (\d+)", text)
    if m:
        cov = int(m[-1])
    out = dict(evaluations=execs, cases=execs, nontrivial=[], classes={f"atheris-{tag}-{'seeded' if seeded else 'empty'}-corpus": execs}, samples=[], failures=[], excluded={}, errors=[])
    out["extra"] = {"shard": sh, "target": target, "corpus": "seeded" if seeded else "empty", "execs": execs, "coverage_edges": cov, "corpus_files": len(list(corpus.iterdir()))}
    # corpus entries are distinct inputs that reached new coverage: count them as the distinct non-trivial cases
    for i, f in enumerate(sorted(corpus.iterdir())):
        out["nontrivial"].append(["atheris-" + tag, sh, i])
        if len(out["samples"]) < 2:
            out["samples"].append({"atheris_corpus_entry": f.read_bytes()[:64].decode("latin-1")})
    crashes = sorted(work.glob("crash-*"))
    if crashes:
        data = crashes[0].read_bytes()
        msg = next((l for l in text.splitlines() if "C20-ORACLE" in l), text[-300:])
        sig = "C20:atheris:" + (msg.split("C20-ORACLE:", 1)[1].split(":", 1)[0].strip() if "C20-ORACLE:" in msg else "crash")
        out["failures"].append((sig, {"shape": "dict", "key": "Retry-After", "value": data.decode("utf-8", "surrogateescape")}, msg[:300], False))
    elif r.returncode != 0 and "Done" not in text:
        out["errors"].append("atheris run failed: " + text[-600:])
    return out


PROP = Property(
    id="C20",
    level="exploration",
    rule=(
        "Grammar-based Hypothesis generation of Retry-After values (digit strings of length 1..5000 incl. 308/309/310 and "
        "4300/4301, signs, inner/outer whitespace, underscores, Unicode digits, decimals, exponents; HTTP-dates rendered from "
        "generated datetimes (years 100..9999, offsets -14h..+14h, GMT / numeric offset / naive / RFC 850 / asctime, +/- 2 h "
        "around now, 40 % of them evaluated under a non-UTC local TZ); garbage text; ints of any size, floats incl. NaN/inf, bools, bytes, lists) x 12 container shapes "
        "(exc.retry_after, dict with any key casing, list of pairs, .get-only and .get+.items objects, response.headers, a "
        "container that raises) x status via status/status_code/code/args; exhaustive digit-string lengths 1..600 (quick) / "
        "1..5000 (thorough) and powers of ten up to 10**413 as int attribute; Atheris (coverage-guided, libFuzzer) campaigns on "
        "the header string with the same oracle inside the target, from seeded and empty corpora, plus campaigns that drive the "
        "structured Hypothesis generator through fuzz_one_input (libFuzzer mutates the choice sequence); end-to-end policies using "
        "http_retry_after_classifier + retry_after_or on a virtual clock with a generated jitter draw. Oracle: never raises; "
        "result is an ErrorClass or a Classification whose retry_after_s is a float >= 0; ASCII decimal integer n within float "
        "range gives exactly float(max(n,0)); a date gives max(0, date - now) bracketed by real clock readings before/after "
        "the call; garbage gives no hint; end-to-end wait s satisfies min(rem, n) <= s <= min(rem, n + jitter). Non-trivial = "
        "digit string >= 20 chars, or a date, or a non-dict container, or a non-string value, or a clamp by remaining time."
    ),
    assumptions=[
        "what counts as a date is delegated to email.utils.parsedate_to_datetime (strings it rejects are garbage)",
        "date oracle brackets the real datetime.now before/after the call (sound without patching datetime)",
    ],
    streams=[
        Stream("parse", check_parse, strategy=parse_case(), quick=20000, thorough=400000),
        Stream("digit_lengths", check_parse, enum=enum_digit_lengths, quick=1, thorough=1, exhaustive=True),
        Stream("end_to_end", check_e2e, strategy=e2e_case(), quick=8000, thorough=200000),
        Stream("atheris", check_parse, custom=run_atheris, quick=1, thorough=1, shards=8),
        Stream("atheris_structured", check_parse, custom=run_atheris_structured, quick=1, thorough=1, shards=4),
    ],
)
