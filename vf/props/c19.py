"""C19 — built-in classifiers are total and follow the documented table and precedence."""
from __future__ import annotations

import itertools
import sys

from hypothesis import strategies as st

from .. import bootstrap

bootstrap.install()

import redress  # noqa: E402
from redress import (  # noqa: E402
    ConcurrencyError,
    ErrorClass,
    PermanentError,
    RateLimitError,
    ServerError,
    default_classifier,
    http_classifier,
    pyodbc_classifier,
    sqlstate_classifier,
    strict_classifier,
)

from .. import gen  # noqa: E402
from ..runner import Property, Stream, Verdict  # noqa: E402

CLASSIFIERS = {
    "default": default_classifier,
    "strict": strict_classifier,
    "http": http_classifier,
    "sqlstate": sqlstate_classifier,
    "pyodbc": pyodbc_classifier,
}
OPTIONAL = {
    "aiohttp": redress.aiohttp_classifier,
    "grpc": redress.grpc_classifier,
    "boto3": redress.boto3_classifier,
    "redis": redress.redis_classifier,
    "urllib3": redress.urllib3_classifier,
}
BLOCKED = ["aiohttp", "aiohttp.client_exceptions", "grpc", "grpc.aio", "botocore", "botocore.exceptions", "redis", "redis.exceptions", "urllib3", "urllib3.exceptions"]
MARKERS = {"PermanentError": (PermanentError, "PERMANENT"), "RateLimitError": (RateLimitError, "RATE_LIMIT"), "ConcurrencyError": (ConcurrencyError, "CONCURRENCY"), "ServerError": (ServerError, "SERVER_ERROR")}
BUILTINS = {"ValueError": ValueError, "KeyError": KeyError, "OSError": OSError, "ConnectionError": ConnectionError, "ConnectionResetError": ConnectionResetError, "PermissionError": PermissionError, "RuntimeError": RuntimeError, "Exception": Exception, "LookupError": LookupError}
TIMEOUTS = {"TimeoutError": TimeoutError}
_dyn_cache: dict = {}


def make_type(spec: str):
    """'marker:X' | 'timeout' | 'timeoutsub:<Name>' | 'builtin:X' | 'dyn:<Name>' | 'markersub:X:<Name>' | 'nested:<Outer>:<Name>'"""
    kind, _, rest = spec.partition(":")
    if kind == "marker":
        return MARKERS[rest][0]
    if kind == "timeout":
        return TimeoutError
    if kind == "builtin":
        return BUILTINS[rest]
    key = spec
    if key in _dyn_cache:
        return _dyn_cache[key]
    if kind == "timeoutsub":
        t = type(rest, (TimeoutError,), {})
    elif kind == "markersub":
        m, _, name = rest.partition(":")
        t = type(name, (MARKERS[m][0],), {})
    elif kind == "dyn":
        t = type(rest, (Exception,), {})
    elif kind == "nested":
        # a class defined inside another class / a function: its __qualname__ carries the outer names
        outer, _, name = rest.partition(":")
        t = type(name, (Exception,), {"__qualname__": f"{outer}.<locals>.{name}" if outer.islower() else f"{outer}.{name}"})
    else:
        raise ValueError(spec)
    _dyn_cache[key] = t
    return t


import re as _re

_TAGGED = _re.compile(r"^\$(MyInt|HTTPStatus):-?[0-9]{1,4}$")


class MyInt(int):
    """An int subclass (what enum.IntEnum members, numpy ints, ... are to isinstance)."""


def revive(v):
    if v == "$object":
        return object()
    if isinstance(v, str) and _TAGGED.match(v):
        import http

        kind, num = v[1:].split(":")
        return http.HTTPStatus(int(num)) if kind == "HTTPStatus" else MyInt(int(num))
    if isinstance(v, list):
        return [revive(x) for x in v]
    if isinstance(v, tuple):
        return tuple(revive(x) for x in v)
    if isinstance(v, dict):
        return {k: revive(x) for k, x in v.items()}
    return v


def build_exc(case: dict) -> BaseException:
    t = make_type(case["type"])
    args = tuple(revive(a) for a in case.get("args", []))
    try:
        e = t(*args)
    except Exception:
        e = t()
    for k, val in (case.get("attrs") or {}).items():
        try:
            setattr(e, k, revive(val))
        except Exception:
            pass
    return e


# ---------------------------------------------------------------------------- independent model


def int_table(code: int, with_422: bool):
    if code == 401:
        return "AUTH"
    if code == 403:
        return "PERMISSION"
    if code in (400, 404) or (with_422 and code == 422):
        return "PERMANENT"
    if code == 409:
        return "CONCURRENCY"
    if code == 408:
        return "TRANSIENT"
    if code == 429:
        return "RATE_LIMIT"
    if 500 <= code <= 599:
        return "SERVER_ERROR"
    return None


def is_plain_int(x) -> bool:
    return isinstance(x, int) and not isinstance(x, bool)


def norm(v):
    """Case value as the model should see it: int subclasses are integers."""
    if isinstance(v, str) and _TAGGED.match(v):
        return int(v.split(":")[1])
    return v


def name_heuristic(name: str):
    n = name.lower()
    if "auth" in n or "unauthoriz" in n or "credential" in n:
        return "AUTH"
    if "forbid" in n or "permission" in n:
        return "PERMISSION"
    if "timeout" in n or "connection" in n:
        return "TRANSIENT"
    return None


def model_default(case: dict, strict: bool, exc: BaseException):
    """Expected class, or None when the documentation does not pin the answer for this input.

    Type-based decisions use the object actually built (OSError's constructor may pick a subclass
    from errno and truncates args), values come from the case."""
    if isinstance(exc, TimeoutError):
        return "TRANSIENT"
    for m in ("PermanentError", "RateLimitError", "ConcurrencyError", "ServerError"):
        if isinstance(exc, MARKERS[m][0]):
            return MARKERS[m][1]
    attrs = case.get("attrs") or {}
    status, code = norm(attrs.get("status")), norm(attrs.get("code"))
    chosen = None
    if status is None or (is_plain_int(status) and status == 0):
        chosen = code
    elif is_plain_int(status):
        chosen = status
    else:
        if status in (False, "", b"", 0.0) or status == [] or status == {} or status == ():
            chosen = code
        else:
            chosen = status
    if isinstance(chosen, bool):
        return None  # bools are ints in Python; the docs say nothing about them
    if is_plain_int(chosen):
        t = int_table(chosen, with_422=True)
        if t is not None:
            return t
    if not strict:
        h = name_heuristic(type(exc).__name__)
        if h is not None:
            return h
    return "UNKNOWN"


def model_http(case: dict, exc: BaseException):
    attrs = case.get("attrs") or {}
    for a in ("status", "status_code", "code"):
        val = norm(attrs.get(a))
        if isinstance(val, bool):
            return None
        if is_plain_int(val):
            if val == 422:
                return None  # documented as PERMANENT only for default/strict
            return int_table(val, with_422=False) or "UNKNOWN"
    for arg in exc.args:
        if isinstance(arg, bool):
            return None
        if is_plain_int(arg) and 100 <= arg <= 599:
            if arg == 422:
                return None
            return int_table(arg, with_422=False) or "UNKNOWN"
    return model_default(case, False, exc)


SQL_CHARS = set("0123456789ABCDEFGHIJKLMNOPQRSTUVWXYZ")


def extract_word_code(s: str):
    """First maximal word (\\w+) that is exactly five characters from [0-9A-Z]."""
    i, n = 0, len(s)
    while i < n:
        if s[i].isalnum() or s[i] == "_":
            j = i
            while j < n and (s[j].isalnum() or s[j] == "_"):
                j += 1
            w = s[i:j]
            # within a word, a run of 5 valid chars only matches if it spans the whole word
            if len(w) == 5 and all(c in SQL_CHARS for c in w):
                return w
            i = j
        else:
            i += 1
    return None


def extract_bracket_code(s: str):
    for i in range(len(s) - 6):
        if s[i] == "[" and s[i + 6] == "]" and all(c in SQL_CHARS for c in s[i + 1 : i + 6]):
            return s[i + 1 : i + 6]
    return None


def sql_table(code: str):
    if code in ("40001", "40P01"):
        return "CONCURRENCY"
    if code in ("HYT00", "HYT01", "08S01") or code.startswith("08"):
        return "TRANSIENT"
    if code.startswith("28"):
        return "AUTH"
    if code in ("42000", "42P01"):
        return "PERMANENT"
    return "UNKNOWN"


def model_sql(case: dict, which: str, exc: BaseException):
    attrs = case.get("attrs") or {}
    ss = attrs.get("sqlstate")
    if ss is not None and not isinstance(ss, str):
        return None  # documentation only speaks of SQLSTATE strings
    if isinstance(ss, str) and ss != "":
        if len(ss) == 5:
            return sql_table(ss)
        return None
    code = None
    for arg in exc.args:
        if isinstance(arg, str):
            code = extract_word_code(arg) if which == "sqlstate" else extract_bracket_code(arg)
            if code:
                break
    if code:
        return sql_table(code)
    if which == "pyodbc":
        return "UNKNOWN"
    return model_default(case, False, exc)


def expected(case: dict, name: str, exc: BaseException):
    if name == "default":
        return model_default(case, False, exc)
    if name == "strict":
        return model_default(case, True, exc)
    if name == "http":
        return model_http(case, exc)
    return model_sql(case, name, exc)


# ---------------------------------------------------------------------------- checks


def signals(case: dict) -> int:
    n = 0
    kind = case["type"].partition(":")[0]
    if kind in ("marker", "markersub", "timeout", "timeoutsub"):
        n += 1
    attrs = case.get("attrs") or {}
    n += sum(1 for a in ("status", "status_code", "code", "sqlstate") if a in attrs)
    if name_heuristic(case["type"].split(":")[-1]):
        n += 1
    if any(is_plain_int(a) and 100 <= a <= 599 for a in case.get("args", [])):
        n += 1
    return n


def hostile(case: dict) -> bool:
    def h(v):
        v = norm(v)
        return not (v is None or is_plain_int(v) and abs(v) < 10**6 or isinstance(v, str) and v.isascii())

    return any(h(v) for v in (case.get("attrs") or {}).values()) or any(h(v) for v in case.get("args", []))


def check_case(case: dict) -> Verdict:
    v = Verdict()
    names = case.get("classifiers") or list(CLASSIFIERS)
    for name in names:
        exc = build_exc(case)
        f = CLASSIFIERS[name]
        try:
            got = f(exc)
        except Exception as x:  # noqa: BLE001 - totality is the property
            v.fail(f"C19:{name}:raises:{type(x).__name__}", f"{name}_classifier raised {x!r} for {case}")
            continue
        v.evals += 1
        if not isinstance(got, ErrorClass):
            v.fail(f"C19:{name}:not-an-ErrorClass", f"{name}_classifier returned {got!r} for {case}")
            continue
        want = expected(case, name, exc)
        if want is not None and got.name != want:
            v.fail(f"C19:{name}:table", f"{name}_classifier returned {got.name}, documented mapping says {want}, for {case}")
    # strict never looks at names: same exception under a heuristic-laden and a neutral class name
    kind, _, rest = case["type"].partition(":")
    if kind == "dyn" and "strict" in names:
        neutral = {**case, "type": "dyn:Zzz"}
        try:
            a, b = strict_classifier(build_exc(case)), strict_classifier(build_exc(neutral))
            if a is not b:
                v.fail("C19:strict:name-dependent", f"strict_classifier gives {a.name} for class name {rest!r} but {b.name} for 'Zzz' ({case})")
        except Exception:
            pass
    v.nontrivial = signals(case) >= 2 or hostile(case)
    v.tag(f"signals={min(signals(case), 4)}", "hostile" if hostile(case) else "plain", "type:" + kind)
    return v


def check_optional(case: dict) -> Verdict:
    v = Verdict()
    saved = {k: sys.modules.get(k, "absent") for k in BLOCKED}
    for k in BLOCKED:
        sys.modules[k] = None  # import of k now raises ImportError
    try:
        for name, f in OPTIONAL.items():
            exc = build_exc(case)
            try:
                want = default_classifier(exc)
            except Exception:
                continue
            try:
                got = f(exc)
            except Exception as x:  # noqa: BLE001
                v.fail(f"C19:{name}:raises:{type(x).__name__}", f"{name}_classifier raised {x!r} with its library absent, for {case}")
                continue
            v.evals += 1
            if got is not want:
                v.fail(f"C19:{name}:not-default-when-absent", f"{name}_classifier returned {got!r} but default_classifier returns {want!r} (library absent), for {case}")
    finally:
        for k, val in saved.items():
            if val == "absent":
                sys.modules.pop(k, None)
            else:
                sys.modules[k] = val
    v.nontrivial = signals(case) >= 1 or hostile(case)
    return v


# ---------------------------------------------------------------------------- generators

NAME_PARTS = ["Auth", "auth", "UNAUTHORIZED", "Credential", "Forbidden", "forbid", "Permission", "Timeout", "TIMEOUT", "Connection", "connection", "Foo", "Bar", "Error", "Http", "X"]


def type_st():
    dyn = st.lists(st.sampled_from(NAME_PARTS), min_size=1, max_size=3).map(lambda p: "dyn:" + "".join(p))
    nested = st.tuples(st.sampled_from(["AuthClient", "PermissionService", "open_connection_pool", "TimeoutManager", "Plain", "make_client"]), st.sampled_from(["QuotaExceeded", "Busy", "PoolExhausted", "AuthFailed", "Oops"])).map(lambda t: f"nested:{t[0]}:{t[1]}")
    return st.one_of(
        dyn,
        dyn,
        nested,
        st.sampled_from(["marker:" + m for m in MARKERS]),
        st.sampled_from(["timeout", "timeoutsub:SlowThing", "timeoutsub:AuthTimeout"]),
        st.sampled_from(["builtin:" + b for b in BUILTINS]),
        st.tuples(st.sampled_from(list(MARKERS)), st.sampled_from(NAME_PARTS)).map(lambda t: f"markersub:{t[0]}:{t[1]}Thing"),
    )


DOC_CODES = [400, 401, 403, 404, 408, 409, 422, 429, 500, 503, 599]
BOUNDARY = [99, 100, 101, 199, 200, 399, 499, 500, 599, 600, 601, 0, -1, 1, 10**400, -(10**30)]


def value_st():
    return st.one_of(
        st.none(),
        st.booleans(),
        st.sampled_from(DOC_CODES),
        st.sampled_from(DOC_CODES),
        st.sampled_from([401, 403, 404, 408, 409, 429, 500, 503]).map(lambda c: f"$HTTPStatus:{c}"),
        st.sampled_from(DOC_CODES + [0, 600]).map(lambda c: f"$MyInt:{c}"),
        st.sampled_from(BOUNDARY),
        st.integers(-50, 1100),
        st.floats(allow_nan=True, allow_infinity=True),
        st.sampled_from([401.0, 429.0, 500.5, float("nan"), float("inf")]),
        st.text(max_size=12),
        st.sampled_from(["429", "500", "40001", "08S01", "[HYT00] timeout", "error 28000 login", "", "HYT00x", "_40001", "ＨＹＴ００"]),
        st.binary(max_size=6),
        st.lists(st.integers(0, 600), max_size=3),
        st.tuples(st.integers(0, 600)),
        st.dictionaries(st.text(max_size=3), st.integers(), max_size=2),
        st.just("$object"),
    )


def sqlstate_value_st():
    return st.one_of(
        st.sampled_from(["40001", "40P01", "HYT00", "HYT01", "08S01", "08001", "08006", "28000", "28P01", "42000", "42P01", "42601", "23505", "00000", "0800", "280000", "hyt00"]),
        value_st(),
    )


@st.composite
def exc_case(draw, directed: str | None = None):
    case: dict = {"type": draw(type_st())}
    attrs: dict = {}
    which = directed or draw(st.sampled_from(["status", "code", "status_code", "sqlstate", "args", "none", "many"]))
    if which in ("status", "code", "status_code"):
        attrs[which] = draw(value_st())
    elif which == "sqlstate":
        attrs["sqlstate"] = draw(sqlstate_value_st())
    elif which == "many":
        for a in draw(st.lists(st.sampled_from(["status", "status_code", "code", "sqlstate"]), min_size=2, max_size=4, unique=True)):
            attrs[a] = draw(sqlstate_value_st() if a == "sqlstate" else value_st())
    if which in ("args", "many") or gen.chance(draw, 0.3, "c19-args"):
        case["args"] = draw(
            st.lists(
                st.one_of(
                    value_st(),
                    st.sampled_from(["[40001] deadlock", "('HYT00', 'timeout')", "ORA-00001", "SQLSTATE 08S01 link", "x[28000]y", "code=42P01", "[4000]", "[400011]"]),
                    st.tuples(st.sampled_from([8180, 8187, 8192, 9000, 70000]), st.sampled_from(["SQLSTATE 40001 serialization", "[HYT00] timeout", "08S01", "error 28000", "[42P01]"])).map(lambda t: "INSERT " + "x" * t[0] + " " + t[1]),
                    st.sampled_from(["ポート ５４３２１ に接続できません", "خطأ ٤٢٠٠٠ في", "１２３４５ then 40001", "[４０００１] full-width", "é40001", "40001é", "०८S०१ link", "ＨＹＴ００ timeout 08S01"]),
                    st.sampled_from(DOC_CODES),
                ),
                max_size=3,
            )
        )
    if attrs:
        case["attrs"] = attrs
    return case


def enum_ints(tier: str):
    types = ["dyn:Plain", "dyn:MyTimeoutThing", "dyn:AuthFailure", "dyn:ForbiddenConnection", "marker:PermanentError", "marker:RateLimitError", "marker:ServerError", "timeout", "builtin:ConnectionError", "builtin:PermissionError"]
    lo, hi = (-50, 1100)
    for code in range(lo, hi + 1):
        for t in types:
            for attr in ("status", "code", "status_code"):
                yield {"type": t, "attrs": {attr: code}}
            yield {"type": t, "args": [code]}
            yield {"type": t, "args": ["msg", code]}
    for code in DOC_CODES:
        for t in ("dyn:Plain", "dyn:MyTimeoutThing"):
            for attr in ("status", "code", "status_code"):
                yield {"type": t, "attrs": {attr: f"$MyInt:{code}"}}
                if code != 422 or True:
                    try:
                        import http

                        http.HTTPStatus(code)
                        yield {"type": t, "attrs": {attr: f"$HTTPStatus:{code}"}}
                    except ValueError:
                        pass
    # status + code conflicts on the documented codes
    for a, b in itertools.product(DOC_CODES + [0, 200, None], repeat=2):
        for t in ("dyn:Plain", "dyn:ConnectionLost", "marker:ConcurrencyError"):
            yield {"type": t, "attrs": {"status": a, "code": b}}


SQL_ALPHABET = "01248HYTPS"


def enum_sqlstates(tier: str):
    shapes = ["attr", "word", "bracket"] if tier == "thorough" else ["attr", "bracket"]
    for tup in itertools.product(SQL_ALPHABET, repeat=5):
        code = "".join(tup)
        if tier == "quick" and not (code[:2] in ("40", "08", "28", "42", "HY", "00", "80", "82")):
            continue
        for shape in shapes:
            if shape == "attr":
                yield {"type": "dyn:DbError", "attrs": {"sqlstate": code}, "classifiers": ["sqlstate", "pyodbc"]}
            elif shape == "word":
                yield {"type": "dyn:DbError", "args": [f"failed: SQLSTATE {code} (0)"], "classifiers": ["sqlstate", "pyodbc"]}
            else:
                yield {"type": "dyn:DbError", "args": [code, f"[{code}] [Microsoft][ODBC] failed (0)"], "classifiers": ["sqlstate", "pyodbc"]}


def run_atheris(tier: str, seed: int, shard) -> dict:
    import os
    import re
    import shutil
    import subprocess

    from ..runner import ROOT

    sh, nsh = shard
    runs = 120_000 if tier == "quick" else 3_000_000
    work = ROOT / ".work" / "C19" / f"atheris-{sh}"
    if work.exists():
        shutil.rmtree(work)
    corpus = work / "corpus"
    corpus.mkdir(parents=True)
    seeded = sh % 2 == 0
    if seeded:
        for i, t in enumerate([b"\x00\x00[40001] deadlock", b"\x00\x01HYT00", b"\x00\x00SQLSTATE 08S01 link failure", b"\x01\x0028000", b"\x00\x02x"]):
            (corpus / f"seed{i}").write_bytes(t)
    cmd = [sys.executable, str(ROOT / "fuzz" / "c19_target.py"), f"-runs={runs}", f"-seed={seed * 100 + sh + 1}", "-max_len=64", f"-artifact_prefix={work}/crash-", "-print_final_stats=1", str(corpus)]
    r = subprocess.run(cmd, capture_output=True, text=True, env=dict(os.environ), timeout=3600)
    text = r.stdout + r.stderr
    m = re.findall(r"stat::number_of_executed_units:\s*(\d+)", text)
    execs = int(m[-1]) if m else 0
    m = re.findall(r"cov: (\d+)", text)
    cov = int(m[-1]) if m else 0
    out = dict(evaluations=execs, cases=execs, nontrivial=[], classes={f"atheris-{'seeded' if seeded else 'empty'}-corpus": execs}, samples=[], failures=[], excluded={}, errors=[])
    out["extra"] = {"shard": sh, "corpus": "seeded" if seeded else "empty", "execs": execs, "coverage_edges": cov, "corpus_files": len(list(corpus.iterdir()))}
    for i, f in enumerate(sorted(corpus.iterdir())):
        out["nontrivial"].append(["atheris", sh, i])
        if len(out["samples"]) < 2:
            out["samples"].append({"atheris_corpus_entry": f.read_bytes()[:48].decode("latin-1")})
    crashes = sorted(work.glob("crash-*"))
    if crashes:
        data = crashes[0].read_bytes()
        msg = next((ln for ln in text.splitlines() if "C19-ORACLE" in ln), text[-300:])
        sig = "C19:atheris:" + (msg.split("C19-ORACLE:", 1)[1].split(":", 1)[0].strip() if "C19-ORACLE:" in msg else "crash")
        out["failures"].append((sig, {"type": "dyn:DbError", "args": [data[2:].decode("utf-8", "surrogateescape")]}, msg[:300], False))
    elif r.returncode != 0 and "Done" not in text:
        out["errors"].append("atheris run failed: " + text[-600:])
    return out


PROP = Property(
    id="C19",
    level="exploration",
    rule=(
        "Hypothesis-generated exception objects: type in {the four markers and subclasses, TimeoutError and subclasses, builtins, "
        "dynamically created classes whose names do/do not contain each heuristic substring in mixed case} x values for "
        "status/status_code/code/sqlstate/args drawn from None, bools, documented codes (also as int subclasses: http.HTTPStatus members, a custom int subclass), boundaries (99/100/499/500/599/600), "
        "huge ints, floats incl. NaN/inf, text, bytes, lists, tuples, dicts, object(); directed so that the attribute a "
        "classifier reads is present. Oracle: returns an ErrorClass, never raises, equals an independent table+precedence "
        "model written from the docstrings (None = not pinned by the docs, e.g. bools, http 422, non-string sqlstate), strict "
        "is invariant under class renaming; optional-library classifiers equal default_classifier with their library made "
        "unimportable. Exhaustive: every int in [-50,1100] as status/code/status_code/args x 10 exception types x 5 "
        "classifiers; every 5-char SQLSTATE over the alphabet 01248HYTPS (all 100000 in thorough, documented prefixes in "
        "quick) as attribute and embedded in message strings; Atheris (coverage-guided) campaigns feed arbitrary text as "
        "args[0] / sqlstate through the same oracle from seeded and empty corpora. Non-trivial = exception carrying >= 2 competing signals or a "
        "hostile value."
    ),
    streams=[
        Stream("generated", check_case, strategy=exc_case(), quick=20000, thorough=400000),
        Stream("int_table", check_case, enum=enum_ints, quick=1, thorough=1, exhaustive=True),
        Stream("sqlstate_codes", check_case, enum=enum_sqlstates, quick=1, thorough=1, exhaustive=True),
        Stream("optional_absent", check_optional, strategy=exc_case(), quick=6000, thorough=100000),
        Stream("atheris", check_case, custom=run_atheris, quick=1, thorough=1, shards=4),
    ],
)
