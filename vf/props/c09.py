"""C09 — one breaker record per policy call, by final outcome, not per attempt."""
from __future__ import annotations

from hypothesis import strategies as st

from . import _common as C
from .. import gen, oracles
from ..runner import Property, Stream, Verdict

PROFILE = {
    "max_attempts": 5,
    "deadline": 0.3,
    "abort": 0.2,
    "handler": 0.25,
    "budget": 0.15,
    "special": 0.08,
    "special_kinds": ["abort", "kbd", "sysexit", "cancel", "rexh", "copen"],
    "overshoot": 0.1,
    "p_retryable": 0.85,
    "max_dur": 8,
    "max_delay_ticks": 16,
    "multi_call": (1, 4),
    "handler_time": 0.3,
}
ENTRIES = [f"{a}Policy{v}.{m}" for a in ("", "Async") for v in ("", ".noretry") for m in ("call", "execute")] + ["Policy.context.call", "AsyncPolicy.context.call", "Policy.proxy.call", "AsyncPolicy.proxy.call", "Policy.proxy.execute", "AsyncPolicy.proxy.execute"]
CANCEL_TYPES = ("KeyboardInterrupt", "SystemExit", "CancelledError", "GeneratorExit")


def expected_record(case: dict, cv, has_retry: bool):
    """('success'|'cancel'|'failure', class or None) or None when the statement does not pin the kind."""
    end = oracles.ending(cv)
    k = end["kind"]
    if k == "value":
        return ("record_success", None)
    if k == "abort":
        return ("record_cancel", None)
    if k == "propagate":
        if end["type"] in CANCEL_TYPES:
            return ("record_cancel", None)
        return None  # nested RetryExhaustedError etc.: exactly one record, kind not pinned
    if k == "fail" and any(e[0] == "handler" and e[4] == "abort" for e in cv.events):
        # the sleep handler answered ABORT: the call was aborted, however the run then describes its ending
        return ("record_cancel", None)
    if k == "fail":
        if cv.atts and cv.atts[-1].kind == "copen":
            return None  # a nested breaker's rejection is deliberately not counted: one record, kind not pinned
        if has_retry:
            cands = oracles.recorded_failure_candidates(case, cv)
            lcf = cands[0]
            return ("record_failure", lcf[0].klass if lcf else "UNKNOWN")
        # without a retry component the class comes from default_classifier (whose table is C19's subject)
        from redress import default_classifier

        x = cv.objs.get(cv.atts[-1].n - 1) if cv.atts else None
        return ("record_failure", default_classifier(x).name if isinstance(x, BaseException) else "UNKNOWN")
    return None


def c09(case: dict, cv, out: list, has_retry: bool) -> dict:
    info = {"admitted": False, "interesting": False}
    brk = [e for e in cv.events if e[0] == "brk"]
    allows = [e for e in brk if e[1] == "allow"]
    records = [e for e in brk if e[1] != "allow"]
    end = oracles.ending(cv)
    if len(allows) > 1:
        out.append(("C09:allow-twice", f"breaker asked for admission {len(allows)} times in one call"))
    if not allows:
        # never asked for admission (pre-flight abort of a no-retry policy): C07 checks what it may do
        return info
    allowed = allows[0][3][0]
    if not allowed:
        if records:
            out.append(("C09:record-for-rejected-call", f"rejected call reported {[r[1] for r in records]} to the breaker"))
        if cv.atts:
            out.append(("C09:operation-invoked-when-rejected", "operation invoked although the breaker rejected the call"))
        if end["kind"] != "circuit_open":
            out.append(("C09:rejection-not-delivered", f"rejected call ended as {end['kind']}"))
        return info
    info["admitted"] = True
    info["interesting"] = len(cv.atts) >= 2 or end["kind"] in ("abort", "propagate") or oracles.reported_reason(cv) == "SCHEDULED"
    nested_copen = bool(cv.atts) and cv.atts[-1].kind == "copen" and end["kind"] == "fail"
    site = f"{'retry' if has_retry else 'noretry'}:{end.get('mode', '?')}:{end['kind']}{':' + end.get('type', '') if end['kind'] == 'propagate' else ''}{':nested-CircuitOpenError' if nested_copen else ''}"
    if len(records) == 0:
        out.append((f"C09:no-record:{site}", f"admitted call ({len(cv.atts)} attempts, ended {end['kind']} {end.get('type', '')}) reported nothing to the breaker"))
        return info
    if len(records) > 1:
        out.append((f"C09:multiple-records:{site}", f"admitted call reported {[(r[1], r[2]) for r in records]} ({len(cv.atts)} attempts)"))
        return info
    r = records[0]
    want = expected_record(case, cv, has_retry)
    if want is None:
        return info
    if r[1] != want[0]:
        out.append((f"C09:wrong-record:{site}", f"call ended {end['kind']} {end.get('type', '')} but breaker got {r[1]}({r[2]}), expected {want[0]}"))
    elif want[0] == "record_failure" and r[2] != want[1]:
        cands = oracles.recorded_failure_candidates(case, cv) if has_retry else []
        ok = {c[0].klass for c in cands if c is not None}
        if r[2] not in ok:
            out.append((f"C09:wrong-class:{site}", f"breaker got record_failure({r[2]}), final failure class is {want[1]}"))
    return info


def check(case: dict) -> Verdict:
    v = Verdict()
    has_retry = ".noretry." not in case["entry"]
    if not has_retry:
        case = {**case, "cfg": {**case["cfg"], "result_classifier": False}}
    env, cvs = C.run(case)
    out: list = []
    for cv in cvs:
        info = c09(case, cv, out, has_retry)
        v.nontrivial = v.nontrivial or (info["admitted"] and info["interesting"])
        v.tag(C.reason_tag(cv), "admitted" if info["admitted"] else "not-admitted")
    v.violations = out
    v.tag("entry:" + case["entry"])
    return v


@st.composite
def case_st(draw):
    case = draw(gen.retry_case(PROFILE))
    case["cfg"]["breaker"] = draw(gen.breaker_spec())
    if gen.chance(draw, 0.25, "c09-pre"):
        spec = case["cfg"]["breaker"]
        if spec.get("trip_on") != []:
            spec["pre"] = draw(st.sampled_from(["half_open_ready", "open", "probe_released"]))
    case["entry"] = draw(st.sampled_from(ENTRIES))
    if ".context." in case["entry"]:
        pass
    return case


FAULT_SITES = ["on_attempt_start", "on_attempt_end", "on_attempt_end", "classifier", "result_classifier", "strategy", "handler", "sleeper", "abort_if", "before_sleep", "on_metric", "on_log"]


@st.composite
def fault_case(draw):
    case = draw(case_st())
    case["placement"] = {**(case.get("placement") or {}), "attempt_hooks": draw(st.sampled_from(["call", "policy"]))}
    is_async = case["entry"].startswith("Async")
    kinds = ["CallbackFault", "CallbackFault", "KeyboardInterrupt", "SystemExit"] + (["CancelledError"] if is_async else [])
    case["fault"] = [draw(st.sampled_from(FAULT_SITES)), draw(st.sampled_from([0, 0, 1, 2, 3])), draw(st.sampled_from(kinds))]
    if case["fault"][0] == "abort_if":
        for c in case["calls"]:
            if c.get("abort") is None:
                c["poll"] = True
    return case


def check_under_fault(case: dict) -> Verdict:
    """Exactly one record per admitted call also when one of the caller's callbacks raises somewhere in the run."""
    v = Verdict()
    has_retry = ".noretry." not in case["entry"]
    if not has_retry:
        case = {**case, "cfg": {**case["cfg"], "result_classifier": False}}
    site, j, kind = case["fault"]
    env, cvs = C.run(case, faults={(site, j): kind})
    fired = any(e[0] == "fault" for e in env.trace)
    for cv in cvs:
        brk = [e for e in cv.events if e[0] == "brk"]
        allows = [e for e in brk if e[1] == "allow"]
        records = [e for e in brk if e[1] != "allow"]
        if not allows or not allows[0][3][0]:
            if records and allows:
                v.fail("C09:fault:record-for-rejected-call", f"rejected call reported {[r[1] for r in records]}")
            continue
        hit = any(e[0] == "fault" for e in cv.events)
        tag = f"{'retry' if has_retry else 'noretry'}:{case['entry'].split('.')[-1]}:{site}-raises-{kind}" if hit else "no-fault-in-this-call"
        if len(records) == 0:
            v.fail(f"C09:fault:no-record:{tag}", f"admitted call #{cv.j} ({len(cv.atts)} attempts) reported nothing to the breaker")
        elif len(records) > 1:
            v.fail(f"C09:fault:multiple-records:{tag}", f"admitted call #{cv.j} reported {[(r[1], r[2]) for r in records]} ({len(cv.atts)} attempts)")
        if hit:
            v.tag(f"fault:{site}", f"fault-kind:{kind}")
    v.nontrivial = fired
    v.tag("fault-fired" if fired else "fault-not-reached", "entry:" + case["entry"])
    return v


PROP = Property(
    id="C09",
    level="exploration",
    rule=(
        "Hypothesis-generated sequences of 1-4 policy calls sharing one real CircuitBreaker behind a spy (Policy/AsyncPolicy x "
        "call/execute/context x with/without retry; breaker starting closed, open, or ready for a half-open probe), every stop "
        "reason and cause, abort polls, handler DEFER/ABORT, cancellation-type exceptions, nested RetryExhaustedError. Oracle: "
        "a rejected call makes no record and no attempt; an admitted call makes exactly one record: success iff it delivered a "
        "value, cancel iff aborted/cancelled, failure(K) with K the class of the final recorded failure otherwise. Non-trivial = "
        "an admitted call with >= 2 attempts or ended by abort / cancellation / deferral."
    ),
    streams=[
        Stream("records", check, strategy=case_st(), quick=12000, thorough=300000),
        Stream("under_callback_faults", check_under_fault, strategy=fault_case(), quick=6000, thorough=150000),
    ],
)
