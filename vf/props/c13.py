"""C13 — abort and cancellation stop work immediately and are never retried."""
from __future__ import annotations

from hypothesis import strategies as st

from . import _common as C
from .. import gen, oracles
from ..runner import Property, Stream, Verdict

PROFILE = {
    "max_attempts": 6,
    "deadline": 0.2,
    "abort": 0.6,
    "handler": 0.2,
    "budget": 0.1,
    "special": 0.12,
    "special_kinds": ["abort", "kbd", "sysexit", "cancel", "rexh"],
    "overshoot": 0.1,
    "p_retryable": 0.92,
    "max_dur": 8,
    "max_delay_ticks": 16,
    "attempt_timeout": 0.2,
}
ENTRIES = C.RETRY_ENTRIES + ["Retry.context.call", "AsyncPolicy.context.call", "decorator.call", "adecorator.call"]


@st.composite
def abort_case(draw):
    case = draw(C.with_entry(gen.retry_case(PROFILE), ENTRIES))
    if case["entry"].split(".")[0] in ("Policy", "AsyncPolicy") and gen.chance(draw, 0.5, "c13-breaker"):
        # the same runs behind a (closed) circuit breaker: its bookkeeping must not get in the way of an abort or a cancellation
        case["cfg"]["breaker"] = {"threshold": draw(st.sampled_from([1, 3])), "window": 640, "recovery": 64}
    return case


def check(case: dict) -> Verdict:
    v = Verdict()
    env, cvs = C.run(case)
    out: list = []
    for cv in cvs:
        info = oracles.c13(case, cv, out)
        v.nontrivial = v.nontrivial or info["abort_after_action"] or info["cancel_late"]
        if info["abort_after_action"]:
            v.tag("abort-after-an-action")
        if info["cancel_late"]:
            v.tag("cancellation-at-attempt>1")
        v.tag(C.reason_tag(cv))
    v.violations = out
    v.tag("entry:" + case["entry"])
    return v


def check_injected(case: dict) -> Verdict:
    """Cancellation raised during a sleep (sync and async sleepers) and thrown into the coroutine at
    every await point: it must come out unchanged, at once, with nothing happening afterwards."""
    from ..harness import run_case

    v = Verdict()
    out: list = []
    entry = case["entry"]
    is_async = entry.startswith(("Async", "adecorator"))
    base = run_case(case, entry)
    # (1) the j-th sleeper call raises a cancellation-type exception
    for j in range(base.inv.get("sleeper", 0)):
        for ft in ["KeyboardInterrupt", "SystemExit"] + (["CancelledError"] if is_async else []):
            env = run_case(case, entry, faults={("sleeper", j): ft})
            v.evals += 1
            _after_injection(env, ("fault", "sleeper", j), ft, out, f"{entry}: sleeper#{j} raises {ft}", None)
            v.tag("site:sleep")
            v.nontrivial = True
    # (2) throw into the coroutine at every suspension point
    if is_async:
        probe = run_case(case, entry, suspend=True)
        v.evals += 1
        for k in range(probe.suspensions):
            for ft in ("CancelledError", "KeyboardInterrupt", "SystemExit"):
                env = run_case(case, entry, suspend=True, inject=(k, ft))
                v.evals += 1
                thrown = next((e for e in env.trace if e[0] == "inject"), None)
                _after_injection(env, ("inject", k), ft, out, f"{entry}: {ft} thrown at await point {k}", k)
                v.tag("site:await-point")
                if k > 0:
                    v.nontrivial = True
    v.violations = out
    v.tag("entry:" + entry)
    return v


def _after_injection(env, marker, ft, out, what, k):
    trace = env.trace
    pos = next((i for i, e in enumerate(trace) if e[0] == marker[0] and (e[1:3] == marker[1:3] if marker[0] == "fault" else e[1] == marker[1])), None)
    if pos is None:
        return
    after = trace[pos + 1 :]
    end = trace[-1]
    for e in after:
        if e[0] in ("op", "sleep", "strat", "handler", "before", "budget") or (e[0] == "metric" and e[1] == "retry"):
            out.append((f"C13:{ft}-work-after-cancellation", f"{what}: {e[0]} happened after the cancellation ({e[:4]})"))
            break
        if e[0] == "classify" and e[3] == ft:
            out.append((f"C13:{ft}-classified", f"{what}: the cancellation was handed to the classifier"))
            break
    if end[0] != "call_end" or end[2] != "raise" or type(end[3]).__name__ != ft:
        got = f"{end[2]} {type(end[3]).__name__}" if end[0] == "call_end" else "?"
        out.append((f"C13:{ft}-not-propagated", f"{what}: the call ended with {got}"))


INJ_PROFILE = {
    "max_attempts": 4,
    "deadline": 0.1,
    "abort": 0.1,
    "handler": 0.15,
    "budget": 0.05,
    "special": 0.0,
    "overshoot": 0.0,
    "p_retryable": 0.95,
    "max_dur": 4,
    "max_delay_ticks": 8,
    "always_fail": True,
}


@st.composite
def injected_case(draw):
    case = draw(gen.retry_case(INJ_PROFILE))
    case["entry"] = draw(st.sampled_from(C.RETRY_ENTRIES + ["adecorator.call", "AsyncRetry.context.call"]))
    for c in case["calls"]:
        for e in c["script"]:
            e["susp"] = draw(st.sampled_from([1, 1, 2]))
    if gen.chance(draw, 0.3, "c13-placement"):
        case["placement"] = {"sleeper": draw(st.sampled_from(["call", "policy", "none"])), "sleeper_flavour": draw(st.sampled_from(["async", "awaitable", "awaitable_obj"]))}
    return case


# ---------------------------------------------------------------------------- a real signal while an attempt is running


@st.composite
def signal_case(draw):
    return {
        "mode": draw(st.sampled_from(["call", "execute"])),
        "policy": draw(st.sampled_from(["Retry", "Policy", "RetryPolicy"])),
        "how": draw(st.sampled_from(["KeyboardInterrupt", "SystemExit"])),
        "attempt_timeout": draw(st.sampled_from([None, 30.0, 30.0])),
        "at_attempt": draw(st.sampled_from([1, 2])),
    }


def check_signal(case: dict) -> Verdict:
    """KeyboardInterrupt / SystemExit raised by a real signal handler in the calling thread while an attempt is
    still running (the usual Ctrl-C / SIGTERM situation) must leave call()/execute() at once: the oracle is
    timing-independent - the operation only finishes when the harness releases it, which it does after the
    policy call has returned; so the call must end while the operation is still blocked."""
    import signal
    import threading

    import redress

    v = Verdict()
    release = threading.Event()
    state = {"finished": False, "calls": 0}

    def op():
        state["calls"] += 1
        if state["calls"] < case["at_attempt"]:
            raise ConnectionError("flaky")
        signal.setitimer(signal.ITIMER_REAL, 0.05)  # the signal arrives while this attempt is running
        release.wait(4.0)
        state["finished"] = True
        return "done"

    def handler(signum, frame):
        if case["how"] == "KeyboardInterrupt":
            raise KeyboardInterrupt()
        raise SystemExit(143)

    kw = dict(classifier=lambda e: redress.ErrorClass.TRANSIENT, strategy=lambda ctx: 0.0, max_attempts=3, deadline_s=60.0, attempt_timeout_s=case["attempt_timeout"])
    cls = {"Retry": redress.Retry, "Policy": None, "RetryPolicy": redress.RetryPolicy}[case["policy"]]
    pol = redress.Policy(retry=redress.Retry(**kw)) if cls is None else cls(**kw)
    old = signal.signal(signal.SIGALRM, handler)
    got = None
    finished_at_exit = None
    try:
        try:
            getattr(pol, case["mode"])(op)
            got = "returned"
        except BaseException as x:  # noqa: BLE001
            got = type(x).__name__
        finished_at_exit = state["finished"]
    finally:
        signal.setitimer(signal.ITIMER_REAL, 0)
        signal.signal(signal.SIGALRM, old)
        release.set()
    if case["attempt_timeout"] is None:
        # the operation runs in the calling thread: the signal handler's exception comes out of the operation itself
        if got != case["how"]:
            v.fail(f"C13:signal:{case['how']}-not-propagated", f"{case}: the call ended with {got}")
    else:
        if got != case["how"]:
            v.fail(f"C13:signal:{case['how']}-not-propagated", f"{case}: the call ended with {got}")
        elif finished_at_exit:
            v.fail(f"C13:signal:{case['how']}-delayed", f"{case}: {case['how']} was raised in the waiting thread but the policy call only returned after the running attempt had finished")
    if state["calls"] > case["at_attempt"]:
        v.fail(f"C13:signal:{case['how']}-retried", f"{case}: the operation was invoked again after the signal")
    v.nontrivial = True
    v.tag("real-signal:" + case["how"], "attempt_timeout" if case["attempt_timeout"] else "inline")
    return v


# exhaustive: for one long always-failing run, abort_if first answers True at every poll index
def enum_polls(tier: str):
    entries = ENTRIES if tier == "thorough" else ["Retry.call", "Retry.execute", "AsyncRetry.call", "AsyncPolicy.execute"]
    for ma in (1, 2, 3, 5):
        for kinds in (["exc"], ["res"], ["exc", "res"]):
            for handler in (None, ["sleep"] * 5):
                script = [{"dur": 1, "kind": k, "klass": "TRANSIENT"} for k in kinds]
                for p in range(0, 3 * ma + 3):
                    call = {"script": script, "abort": p}
                    if handler:
                        call["handler"] = handler
                    for e in entries:
                        yield {"cfg": {"max_attempts": ma, "max_unknown": None, "default": {"vals": [0.03125]}}, "calls": [call], "entry": e}


PROP = Property(
    id="C13",
    level="fault_enumeration",
    rule=(
        "(a) abort: generated cases in which abort_if first answers True at poll index p (p over the whole run; enumerated "
        "exhaustively for fixed always-failing runs), or the operation raises AbortRetryError at attempt k; (b) cancellation: "
        "the operation raises CancelledError / KeyboardInterrupt / SystemExit at attempt k; for each generated case every "
        "sleeper invocation raises each cancellation type in turn (sync and async), and for async entries each type is thrown "
        "into the coroutine at EVERY await point (operation awaits and sleeps) with the harness stepping the coroutine; a small "
        "real-clock stream delivers SIGALRM to the calling thread while an attempt is running (with and without "
        "attempt_timeout_s) - the call must end while the operation is still blocked (timing-independent oracle). "
        "Oracle: poll-placement grammar (every attempt and every sleep is preceded by a poll), nothing after the first True, "
        "AbortRetryError / ABORTED delivered, cancellation object propagates unchanged and is never classified. Non-trivial = "
        "abort after at least one action (p > 0) or cancellation at attempt > 1."
    ),
    streams=[
        Stream("abort_cancel", check, strategy=abort_case(), quick=14000, thorough=300000),
        Stream("every_poll_index", check, enum=enum_polls, quick=1, thorough=1, exhaustive=True),
        Stream("cancellation_points", check_injected, strategy=injected_case(), quick=1500, thorough=40000),
        Stream("real_signal", check_signal, strategy=signal_case(), quick=48, thorough=400, per_shard_min=3),
    ],
)
