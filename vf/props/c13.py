"""C13 — abort and cancellation stop work immediately and are never retried."""
from __future__ import annotations

from hypothesis import strategies as st

from . import _common as C
from .. import gen, oracles
from ..runner import Property, Stream, Verdict

PROFILE = {
    "max_attempts": 6,
    "deadline": 0.2,
    "abort": 0.6,
    "handler": 0.2,
    "budget": 0.1,
    "special": 0.12,
    "special_kinds": ["abort", "kbd", "sysexit", "cancel", "rexh"],
    "overshoot": 0.1,
    "p_retryable": 0.92,
    "max_dur": 8,
    "max_delay_ticks": 16,
    "attempt_timeout": 0.2,
}
ENTRIES = C.RETRY_ENTRIES + ["Retry.context.call", "AsyncPolicy.context.call", "decorator.call", "adecorator.call"]


def check(case: dict) -> Verdict:
    v = Verdict()
    env, cvs = C.run(case)
    out: list = []
    for cv in cvs:
        info = oracles.c13(case, cv, out)
        v.nontrivial = v.nontrivial or info["abort_after_action"] or info["cancel_late"]
        if info["abort_after_action"]:
            v.tag("abort-after-an-action")
        if info["cancel_late"]:
            v.tag("cancellation-at-attempt>1")
        v.tag(C.reason_tag(cv))
    v.violations = out
    v.tag("entry:" + case["entry"])
    return v


# exhaustive: for one long always-failing run, abort_if first answers True at every poll index
def enum_polls(tier: str):
    entries = ENTRIES if tier == "thorough" else ["Retry.call", "Retry.execute", "AsyncRetry.call", "AsyncPolicy.execute"]
    for ma in (1, 2, 3, 5):
        for kinds in (["exc"], ["res"], ["exc", "res"]):
            for handler in (None, ["sleep"] * 5):
                script = [{"dur": 1, "kind": k, "klass": "TRANSIENT"} for k in kinds]
                for p in range(0, 3 * ma + 3):
                    call = {"script": script, "abort": p}
                    if handler:
                        call["handler"] = handler
                    for e in entries:
                        yield {"cfg": {"max_attempts": ma, "max_unknown": None, "default": {"vals": [0.03125]}}, "calls": [call], "entry": e}


PROP = Property(
    id="C13",
    level="fault_enumeration",
    rule=(
        "(a) abort: generated cases in which abort_if first answers True at poll index p (p over the whole run; enumerated "
        "exhaustively for fixed always-failing runs), or the operation raises AbortRetryError at attempt k; (b) cancellation: "
        "the operation raises CancelledError / KeyboardInterrupt / SystemExit at attempt k (cancellation during sleeps and at "
        "await points is enumerated by the C08 stepper, which applies the same 'same object out, nothing after' oracle). "
        "Oracle: poll-placement grammar (every attempt and every sleep is preceded by a poll), nothing after the first True, "
        "AbortRetryError / ABORTED delivered, cancellation object propagates unchanged and is never classified. Non-trivial = "
        "abort after at least one action (p > 0) or cancellation at attempt > 1."
    ),
    streams=[
        Stream("abort_cancel", check, strategy=C.with_entry(gen.retry_case(PROFILE), ENTRIES), quick=14000, thorough=300000),
        Stream("every_poll_index", check, enum=enum_polls, quick=1, thorough=1, exhaustive=True),
    ],
)
