"""E1 — virtual-time trace harness for redress policies.

A *case* is plain JSON-able data (see `vf.gen`).  `run_case(case, entry)` builds the
requested entry point from the public redress API, runs the scripted environment on
a virtual monotonic clock and returns the ordered trace of everything observable.

Times in cases are integer ticks of 1/64 s (exact in binary floating point and in
microseconds), strategy return values are floats (seconds).
"""
from __future__ import annotations

import asyncio
import math
from dataclasses import dataclass, field
from typing import Any

from . import bootstrap

bootstrap.install()

import redress  # noqa: E402
from redress import (  # noqa: E402
    AbortRetryError,
    AsyncPolicy,
    AsyncRetry,
    AsyncRetryPolicy,
    Budget,
    CircuitBreaker,
    CircuitOpenError,
    Classification,
    ErrorClass,
    Policy,
    Retry,
    RetryConfig,
    RetryExhaustedError,
    RetryOutcome,
    RetryPolicy,
    SleepDecision,
    StopReason,
)

GRID = 64
T0 = 1000.0  # virtual monotonic clock value at the start of every case
FAR_DEADLINE_S = 1.0e6

NONRETRY = ("PERMANENT", "AUTH", "PERMISSION")
CLASSES = [k.name for k in ErrorClass]


def g(k: int) -> float:
    """ticks -> seconds (exact)."""
    return k / GRID


def ticks(x: float) -> int:
    """seconds on the grid -> ticks (exact on the grid; rounds otherwise)."""
    return round(x * GRID)


class HarnessError(Exception):
    """Internal inconsistency of the harness itself (never a property violation)."""


# ----------------------------------------------------------------------------
# virtual clock
# ----------------------------------------------------------------------------


class VClock:
    def __init__(self, env: "Env", start: float = T0) -> None:
        self.env = env
        self.t = start
        self.t0 = start
        self.wall_offset = 1.7e9

    # monotonic clock
    def monotonic(self) -> float:
        return self.t

    # wall clock (must never influence the library's decisions)
    def time(self) -> float:
        return self.t + self.wall_offset

    def jump_wall(self, seconds: float) -> None:
        self.wall_offset += seconds

    def rel_ticks(self) -> int:
        return ticks(self.t - self.t0)

    def rel(self) -> float:
        return self.t - self.t0

    # default sleepers (time.sleep / asyncio.sleep reached through the dispatcher)
    def default_sleep(self, s: float) -> None:
        self.env.on_sleep("default", s)

    def default_async_sleep(self, s: float, result: Any = None):
        env = self.env

        async def _sleep():
            await env.on_sleep_async("default", s)
            return result

        return _sleep()


# ----------------------------------------------------------------------------
# scripted objects
# ----------------------------------------------------------------------------


class Scripted:
    """Marker for exceptions raised by the scripted operation (they carry idx / klass / ra / as_obj)."""


class ScriptExc(Scripted, Exception):
    """Exception raised by the scripted operation."""

    def __init__(self, idx: int, klass: str, ra: Any = None, as_obj: bool = False) -> None:
        super().__init__(f"scripted {klass} #{idx}")
        self.idx = idx
        self.klass = klass
        self.ra = ra
        self.as_obj = as_obj


class ScriptCircuitOpen(Scripted, CircuitOpenError):
    def __init__(self, idx: int, klass: str) -> None:
        super().__init__("open")
        self.idx = idx
        self.klass = klass
        self.ra = None
        self.as_obj = False


def _typed(base):
    return type("Script" + base.__name__, (Scripted, base), {})


TYPED_EXC = {b.__name__: _typed(b) for b in (TimeoutError, ConnectionError, KeyError, AssertionError, ValueError, OSError)}


class _FalsyError(Exception):
    """An exception instance can be falsy (an aggregate error raised with no members)."""

    def __bool__(self) -> bool:
        return False

    def __len__(self) -> int:
        return 0


TYPED_EXC["FalsyError"] = _typed(_FalsyError)


class ScriptGroup(ExceptionGroup, Scripted):
    """An exception group with a single member (what asyncio.TaskGroup raises for one failing child)."""

    def __new__(cls, msg, excs):
        return super().__new__(cls, msg, excs)

    def derive(self, excs):
        return ScriptGroup(self.message, excs)
CHAIN_TYPES = {"CircuitOpenError": CircuitOpenError, "AbortRetryError": AbortRetryError, "KeyError": KeyError, "TimeoutError": TimeoutError}


STDLIB_MESSAGES = [
    "cannot schedule new futures after shutdown",
    "can't start new thread",
    "cannot schedule new futures after interpreter shutdown",
    "Event loop is closed",
    "dictionary changed size during iteration",
    "maximum recursion depth exceeded",
]
TYPED_EXC["RuntimeError"] = _typed(RuntimeError)


def make_script_exc(etype: str | None, idx: int, klass: str, ra: Any, as_obj: bool) -> BaseException:
    """The operation's exception may be of any type (builtin TimeoutError, OSError, ... included)."""
    if not etype:
        return ScriptExc(idx, klass, ra, as_obj)
    if etype.startswith("RuntimeError:"):
        x = TYPED_EXC["RuntimeError"](STDLIB_MESSAGES[int(etype.split(":")[1]) % len(STDLIB_MESSAGES)])
        x.idx, x.klass, x.ra, x.as_obj = idx, klass, ra, as_obj
        return x
    if etype.startswith("Group:"):
        # the member would be classified differently from the group as a whole
        member = ScriptExc(idx, etype.split(":", 1)[1], None, False)
        x = ScriptGroup(f"scripted group {klass} #{idx}", [member])
        x.idx, x.klass, x.ra, x.as_obj = idx, klass, ra, as_obj
        return x
    if etype.startswith("Coded:"):
        # SDK errors carrying a textual code / status (errno names, payment-provider codes): any classifier may look at them
        x = ScriptExc(idx, klass, ra, as_obj)
        x.code = etype.split(":", 1)[1]
        x.status = "n/a"
        return x
    x = TYPED_EXC[etype](f"scripted {klass} #{idx}")
    x.idx, x.klass, x.ra, x.as_obj = idx, klass, ra, as_obj
    return x


class HookFault(Exception):
    """Ordinary exception raised by a faulty observability hook."""


class CallbackFault(Exception):
    """Ordinary exception injected into a user callback (classifier, strategy, ...)."""

    klass = "UNKNOWN"


@dataclass
class Res:
    """Value returned by the scripted operation; klass None means success."""

    idx: int
    klass: str | None
    ra: Any = None
    as_obj: bool = False


class AwaitableRes(Res):
    """A return value that is itself awaitable (a Future / Task handle): the caller must get this very
    object back; nobody may await it on the caller's behalf."""

    def __await__(self):
        yield from ()
        return ("somebody awaited the result", self.idx)


class WeirdEqRes(Res):
    """Comparison is element-wise / non-boolean (numpy arrays, ORM expressions): `x == None` is not a bool."""

    def __eq__(self, other):
        return _Ambiguous()

    def __ne__(self, other):
        return _Ambiguous()

    __hash__ = None


class _Ambiguous:
    def __bool__(self):
        raise ValueError("The truth value of this comparison is ambiguous")


class BadReprRes(Res):
    """repr() fails (a detached lazy proxy) while the library holds the object."""

    armed = False

    def __repr__(self):
        if BadReprRes.armed:
            raise LookupError("object is detached from its session")
        return f"BadReprRes(idx={self.idx})"

    __str__ = __repr__


class FalsyRes(Res):
    """A perfectly good return value that happens to be falsy and empty."""

    def __bool__(self) -> bool:
        return False

    def __len__(self) -> int:
        return 0


class _Predicate:
    """abort_if given as a bound method of an object nobody else keeps alive (abort_if=Deadline(30).expired)."""

    def __init__(self, env) -> None:
        self._env = env

    def answer(self):
        return self._env.abort_if()


class FalsyCallable:
    """A perfectly good callback object whose truth value is False (think: an empty queue-like
    handler defining __len__). `x or default` and `if x:` tests mistake it for 'not given'."""

    def __init__(self, fn) -> None:
        self._fn = fn

    def __call__(self, *a, **kw):
        return self._fn(*a, **kw)

    def __bool__(self) -> bool:
        return False

    def __len__(self) -> int:
        return 0


def maybe_falsy(placement: dict, name: str, fn):
    if fn is not None and name in (placement.get("falsy") or ()):
        return FalsyCallable(fn)
    return fn


class AwaitableObj:
    """A non-coroutine awaitable (what a Future or a Task looks like to `inspect.isawaitable`)."""

    def __init__(self, coro) -> None:
        self._coro = coro

    def __await__(self):
        return self._coro.__await__()


class Suspend:
    """Awaitable that yields once to the driver (used by the E3 stepper)."""

    def __init__(self, tag: str) -> None:
        self.tag = tag

    def __await__(self):
        yield self


def _group(*a):
    return ExceptionGroup("hook group", [ValueError("inner")])


FAULT_TYPES = {
    "MemoryError": MemoryError,
    "RecursionError": RecursionError,
    "OSError": OSError,
    "ZeroDivisionError": ZeroDivisionError,
    "AttributeError": AttributeError,
    "TypeError": TypeError,
    "LookupError": LookupError,
    "NotImplementedError": NotImplementedError,
    "UnicodeError": UnicodeError,
    "ImportError": ImportError,
    "StopAsyncIteration": StopAsyncIteration,
    "UserWarning": UserWarning,
    "BufferError": BufferError,
    "EOFError": EOFError,
    "ConnectionResetError": ConnectionResetError,
    "ExceptionGroup": _group,
    "InvalidStateError": asyncio.InvalidStateError,
    "ValueError": ValueError,
    "RuntimeError": RuntimeError,
    "KeyError": KeyError,
    "StopIteration": StopIteration,
    "AbortRetryError": AbortRetryError,
    "RetryExhaustedError": lambda *a: RetryExhaustedError(
        stop_reason=StopReason.ABORTED, attempts=0, last_class=None, last_exception=None, last_result=None
    ),
    "CircuitOpenError": CircuitOpenError,
    "HookFault": HookFault,
    "CallbackFault": CallbackFault,
    "TimeoutError": TimeoutError,
    "KeyboardInterrupt": KeyboardInterrupt,
    "SystemExit": SystemExit,
    "CancelledError": asyncio.CancelledError,
    "GeneratorExit": GeneratorExit,
}


def make_fault(name: str) -> BaseException:
    f = FAULT_TYPES[name]
    try:
        return f("injected")
    except TypeError:
        return f()


# ----------------------------------------------------------------------------
# environment for one case
# ----------------------------------------------------------------------------


@dataclass
class Env:
    case: dict
    trace: list = field(default_factory=list)
    suspend: bool = False  # E3: operations / sleepers / awaitable hooks suspend

    def __post_init__(self) -> None:
        self.clock = VClock(self)
        self.n = {"op": 0, "poll": 0, "sleep": 0, "handler": 0, "before": 0, "strat": 0}
        self.inv: dict[str, int] = {}  # invocation counters per callback name
        self.call_idx = 0
        self.call: dict = {}
        self.objs: dict[int, Any] = {}  # op idx -> object produced (Res or exception), current call
        self.objs_by_call: list[dict] = []
        self.call_has_handler = False
        self.target = None
        self.timeline_obj = None
        self.call_t0 = self.clock.t
        d = self.case.get("cfg", {}).get("deadline")
        self.deadline_ticks = d if isinstance(d, int) else None
        self.cls_objs: list = []  # Classification objects handed out by classifiers
        self.strat_idx: dict[str, int] = {}
        self.faults: dict = {}  # (callback name, invocation index | "always") -> exception type name
        self.breaker = None
        self.budget = None

    # --- helpers -------------------------------------------------------------
    def now(self) -> int:
        return self.clock.rel_ticks()

    def tick(self, name: str) -> int:
        i = self.inv.get(name, 0)
        self.inv[name] = i + 1
        return i

    def check_args(self, where: str, got: tuple) -> None:
        if got != (1, "two", 3):
            self.trace.append(("args_mangled", where, repr(got)))

    def maybe_fault(self, name: str, i: int) -> None:
        if name == "strategy":
            k = self.n["strat"]
            self.n["strat"] = k + 1
            st = self.call.get("steal")
            if st and k in st and self.budget is not None:
                # another user of the shared budget takes a token while this run is computing its delay
                r = self.budget_orig(1)
                self.trace.append(("budget_ext", r, self.now(), 1))
        f = self.faults.get((name, i)) or self.faults.get((name, "always"))
        if f is not None:
            self.trace.append(("fault", name, i, f))
            raise make_fault(f)

    def jump(self, key: str, i: int) -> None:
        jumps = self.case.get("jumps")
        if jumps:
            j = jumps[(i * 2 + (0 if key == "op" else 1)) % len(jumps)]
            if j:
                self.clock.jump_wall(float(j))

    def _advance_until(self, delta: int) -> None:
        """Advance the clock to (call start + deadline + delta ticks) if that is in the future."""
        target = self.call_t0 + g(self.deadline_ticks + delta)
        if target > self.clock.t:
            self.clock.t = target

    # --- the operation -------------------------------------------------------
    def _script_entry(self, i: int) -> dict:
        script = self.call["script"]
        if not script:
            return {"dur": 0, "kind": "ok"}
        if self.call.get("cycle"):
            return script[i % len(script)]
        return script[i] if i < len(script) else script[-1]

    def op_body(self) -> Any:
        i = self.n["op"]
        self.n["op"] += 1
        self.trace.append(("op", i + 1, self.now(), self.clock.rel()))
        self.jump("op", i)
        e = self._script_entry(i)
        dur = e.get("dur", 0)
        if e.get("dur_s") is not None:
            self.clock.t += e["dur_s"]
        elif e.get("until") is not None and self.deadline_ticks is not None:
            self._advance_until(e["until"])
        else:
            self.clock.t += g(dur)
        kind = e["kind"]
        self.trace.append(("op_end", i + 1, self.now(), kind, self.clock.rel()))
        self.pending = (i, e)  # what the result classifier is about to be asked about
        if kind in ("ok", "res"):
            klass = e["klass"] if kind == "res" else None
            if e.get("rval") == "none":
                r = None  # a legal return value; the result classifier learns its class from the script
            elif e.get("rval") == "falsy":
                r = FalsyRes(i, klass, e.get("ra"), e.get("as_obj", False))
            elif e.get("rval") == "awaitable":
                r = AwaitableRes(i, klass, e.get("ra"), e.get("as_obj", False))
            elif e.get("rval") == "weird_eq":
                r = WeirdEqRes(i, klass, e.get("ra"), e.get("as_obj", False))
            elif e.get("rval") == "bad_repr":
                r = BadReprRes(i, klass, e.get("ra"), e.get("as_obj", False))
            elif e.get("rval") == "exc_instance":
                r = ValueError(f"a failure object returned as a value #{i}")  # e.g. an entry of a return_exceptions batch
            else:
                r = Res(i, klass, e.get("ra"), e.get("as_obj", False))
            self.objs[i] = r
            return r
        if kind == "exc" and e.get("reraise_prev") and i > 0 and self._script_entry(i - 1).get("kind") == "exc" and isinstance(self.objs.get(i - 1), Scripted) and getattr(self.objs[i - 1], "klass", None) == e["klass"]:
            # the very same exception instance again (a stored failure, Future.result() of a failed future)
            x = self.objs[i - 1]
            self.objs[i] = x
            raise x
        if kind == "exc":
            x: BaseException = make_script_exc(e.get("etype"), i, e["klass"], e.get("ra"), e.get("as_obj", False))
            ch = e.get("chain")
            if ch:
                # the failure happened while handling (or was raised `from`) another exception
                inner = CHAIN_TYPES[ch[1]]("inner")
                if ch[0] == "cause":
                    x.__cause__ = inner
                else:
                    x.__context__ = inner
            x._orig_cause = x.__cause__  # what the operation itself chained (C04 compares identity)
        elif kind == "copen":
            x = ScriptCircuitOpen(i, e.get("klass", "UNKNOWN"))
        elif kind == "abort":
            # `redress.AbortRetry` is the other exported name of the same exception
            x = redress.AbortRetry() if e.get("alias") else AbortRetryError()
        elif kind == "kbd":
            x = KeyboardInterrupt()
        elif kind == "sysexit":
            x = SystemExit(3)
        elif kind == "cancel":
            x = asyncio.CancelledError()
        elif kind == "genexit":
            x = GeneratorExit()
        elif kind == "rexh":
            x = RetryExhaustedError(
                stop_reason=StopReason.MAX_ATTEMPTS_GLOBAL,
                attempts=7,
                last_class=ErrorClass[e.get("klass", "TRANSIENT")],
                last_exception=None,
                last_result=None,
            )
        else:
            raise HarnessError(f"unknown script kind {kind!r}")
        self.objs[i] = x
        raise x

    def op(self) -> Any:
        return self.op_body()

    async def aop(self) -> Any:
        if self.suspend:
            n = self._script_entry(self.n["op"]).get("susp", 1)
            for k in range(n):
                await Suspend(f"op{self.n['op'] + 1}.{k}")
        return self.op_body()

    # --- classifiers ---------------------------------------------------------
    def _classification(self, klass: str, ra: Any, as_obj: bool):
        k = ErrorClass[klass]
        if ra is not None or as_obj:
            c = Classification(klass=k, retry_after_s=ra)
            self.cls_objs.append(c)
            return c
        return k

    def classifier(self, exc: BaseException):
        i = self.tick("classifier")
        idx = getattr(exc, "idx", None)
        klass = getattr(exc, "klass", None)
        if not isinstance(klass, str):
            klass = "UNKNOWN"
        self.trace.append(("classify", idx, klass, type(exc).__name__))
        if self.faults.get(("classifier", i)) == "ReturnsNone":
            self.trace.append(("fault", "classifier", i, "ReturnsNone"))
            return None  # a classifier without a default branch
        self.maybe_fault("classifier", i)
        if isinstance(idx, int):
            self.clock.t += g(self._script_entry(idx).get("cdur", 0))  # classification may take time
        return self._classification(klass, getattr(exc, "ra", None), getattr(exc, "as_obj", False))

    def result_classifier(self, res: Any):
        i = self.tick("result_classifier")
        if not isinstance(res, Res) and getattr(self, "pending", None) is not None:
            idx, e = self.pending
            klass = e.get("klass") if e["kind"] == "res" else None
            ra, as_obj = e.get("ra"), e.get("as_obj", False)
        else:
            idx, klass = getattr(res, "idx", None), getattr(res, "klass", None)
            ra, as_obj = getattr(res, "ra", None), getattr(res, "as_obj", False)
        self.trace.append(("rclassify", idx, klass))
        self.maybe_fault("result_classifier", i)
        if klass is None:
            return None
        if isinstance(idx, int):
            self.clock.t += g(self._script_entry(idx).get("cdur", 0))
        return self._classification(klass, ra, as_obj)

    # --- strategies ----------------------------------------------------------
    def make_strategy(self, key: str, spec: dict):
        vals = spec["vals"]
        style = spec.get("style", "ctx")
        env = self

        def nextval() -> float:
            k = env.strat_idx.get(key, 0)
            env.strat_idx[key] = k + 1
            return vals[k % len(vals)]

        def ctx_strategy(ctx):
            i = env.tick("strategy")
            v = nextval()
            c = ctx.classification
            env.trace.append(
                (
                    "strat",
                    key,
                    ctx.attempt,
                    c.klass.name,
                    c.retry_after_s,
                    ctx.prev_sleep_s,
                    ctx.remaining_s,
                    ctx.cause,
                    v,
                    any(c is o for o in env.cls_objs),
                    env.now(),
                )
            )
            env.maybe_fault("strategy", i)
            return v

        def legacy_strategy(attempt, klass, prev_sleep_s):
            i = env.tick("strategy")
            v = nextval()
            env.trace.append(
                ("strat", key, attempt, klass.name, None, prev_sleep_s, None, None, v, None, env.now())
            )
            env.maybe_fault("strategy", i)
            return v

        if style == "legacy":
            return legacy_strategy
        if style == "legacy_defaults":

            def legacy_with_default(attempt, klass, prev_sleep_s=None):
                return legacy_strategy(attempt, klass, prev_sleep_s)

            return legacy_with_default
        if style == "ctx_defaults":
            # a context-style strategy with two extra defaulted parameters is still context-style
            def ctx_with_defaults(ctx, base_s=0.5, cap_s=8.0):
                if base_s != 0.5 or cap_s != 8.0:
                    env.trace.append(("strat_args_clobbered", key, repr(base_s), repr(cap_s)))
                return ctx_strategy(ctx)

            return ctx_with_defaults
        if style == "ctx_kwonly":

            def ctx_kwonly(ctx, *, scale=1.0):
                return ctx_strategy(ctx)

            return ctx_kwonly
        if style == "partial":
            import functools

            def two(tag, ctx):
                return ctx_strategy(ctx)

            return functools.partial(two, "bound")
        if style == "lambda":
            return lambda ctx: ctx_strategy(ctx)
        if style == "obj":

            class StrategyObject:
                def __call__(self, ctx):
                    return ctx_strategy(ctx)

                def record_success(self):
                    env.trace.append(("strat_rec", key, "success"))

                def record_failure(self, klass=None):
                    env.trace.append(("strat_rec", key, "failure", getattr(klass, "name", None)))
                    env.clock.t += g(spec.get("rfdur", 0))  # bookkeeping may take time

            return StrategyObject()
        return ctx_strategy

    # --- sleeping ------------------------------------------------------------
    def _do_sleep(self, where: str, s: float) -> None:
        i = self.n["sleep"]
        self.n["sleep"] += 1
        self.trace.append(("sleep", where, s, self.now(), self.clock.rel()))
        mf = self.call.get("midflight")
        if mf and mf.get("at_sleep") == i:
            apply_reconfigure(self, mf["set"])  # e.g. a config reload that happens while a call is backing off
        self.jump("sleep", i)
        over = self.call.get("overshoot") or []
        extra = over[i] if i < len(over) else 0
        skip = isinstance(extra, dict) and extra.get("skip")
        try:
            fs = float(s)  # the delay may be a Decimal / Fraction
        except (TypeError, ValueError, OverflowError):
            fs = 0.0
        if math.isfinite(fs) and fs > 0 and not skip:
            self.clock.t += fs  # a sleeper may also return early ("skip": e.g. an interruptible wait)
        if self.call.get("overshoot_s"):
            o = self.call["overshoot_s"]
            self.clock.t += o[i] if i < len(o) else 0.0
        elif isinstance(extra, dict):
            if extra.get("until") is not None and self.deadline_ticks is not None:
                self._advance_until(extra["until"])
            self.clock.t += g(extra.get("plus", 0))
        else:
            self.clock.t += g(extra)
        self.trace.append(("sleep_end", self.now(), self.clock.rel()))

    def on_sleep(self, where: str, s: float) -> None:
        i = self.tick("sleeper")
        self.maybe_fault("sleeper", i)
        self._do_sleep(where, s)

    async def on_sleep_async(self, where: str, s: float) -> None:
        i = self.tick("sleeper")
        self.maybe_fault("sleeper", i)
        if self.suspend:
            await Suspend(f"sleep{self.n['sleep'] + 1}")
        self._do_sleep(where, s)

    def make_sleeper(self, where: str, flavour: str):
        """flavour: sync | async | awaitable (sync function returning an awaitable)."""
        env = self

        def sleeper(s):
            env.on_sleep(where, s)

        async def asleeper(s):
            await env.on_sleep_async(where, s)

        def awaitable_sleeper(s):
            return env.on_sleep_async(where, s)

        def awaitable_obj_sleeper(s):
            return AwaitableObj(env.on_sleep_async(where, s))  # awaitable, but not a coroutine (like a Future)

        import types as _types

        @_types.coroutine
        def gen_sleeper(s):
            # a generator-based coroutine: awaitable although it has no __await__ attribute
            yield from env.on_sleep_async(where, s).__await__()

        return {"sync": sleeper, "async": asleeper, "awaitable": awaitable_sleeper, "awaitable_obj": awaitable_obj_sleeper, "gen_coroutine": gen_sleeper}[flavour]

    # --- handler / hooks -----------------------------------------------------
    def make_handler(self, where: str):
        env = self

        def handler(ctx, s):
            i = env.tick("handler")
            j = env.n["handler"]
            env.n["handler"] += 1
            decisions = env.call.get("handler") or []
            d = decisions[j] if j < len(decisions) else "sleep"
            env.trace.append(("handler", where, ctx.attempt, s, d, env.now()))
            hd = env.call.get("handler_dur") or []
            if j < len(hd):
                env.clock.t += g(hd[j])  # deciding may take time (e.g. enqueueing the deferred retry)
            env.maybe_fault("handler", i)
            if d == "invalid":
                return "sleep-ish"  # not a SleepDecision member
            if d.startswith("str:"):
                return d[4:]  # the plain string instead of the enum member (SleepDecision is a str enum)
            return SleepDecision(d)

        return handler

    def make_before_sleep(self, where: str, flavour: str):
        env = self

        def body(ctx, s):
            i = env.tick("before_sleep")
            env.trace.append(("before", where, ctx.attempt, s, env.now()))
            env.maybe_fault("before_sleep", i)

        def before(ctx, s):
            body(ctx, s)

        async def abefore(ctx, s):
            if env.suspend:
                await Suspend("before_sleep")
            body(ctx, s)

        def awaitable_before(ctx, s):
            return abefore(ctx, s)

        def awaitable_obj_before(ctx, s):
            return AwaitableObj(abefore(ctx, s))

        import types as _types

        @_types.coroutine
        def gen_before(ctx, s):
            yield from abefore(ctx, s).__await__()

        return {"sync": before, "async": abefore, "awaitable": awaitable_before, "awaitable_obj": awaitable_obj_before, "gen_coroutine": gen_before}[flavour]

    def on_metric(self, event, attempt, sleep_s, tags):
        i = self.tick("on_metric")
        self.trace.append(("metric", event, attempt, sleep_s, dict(tags)))
        self.maybe_fault("on_metric", i)

    def on_log(self, event, fields):
        i = self.tick("on_log")
        self.trace.append(("log", event, dict(fields)))
        self.maybe_fault("on_log", i)

    def abort_if(self):
        i = self.n["poll"]
        self.n["poll"] += 1
        first = self.call.get("abort")
        a = first is not None and i >= first
        at = self.call.get("abort_at")
        if at is not None and self.clock.t - self.call_t0 >= g(at):
            a = True  # a shutdown flag raised at a moment in time, whether or not anyone is looking
        self.trace.append(("poll", i, a, self.now()))
        self.maybe_fault("abort_if", self.tick("abort_if"))
        style = self.call.get("abort_style")
        if style == "int":
            return 1 if a else 0
        if style == "obj":
            return ["stop"] if a else []  # any truthy / falsy value answers the question
        if style == "none":
            return "shutdown" if a else None
        return a

    def on_attempt_start(self, ctx):
        i = self.tick("on_attempt_start")
        self.trace.append(("att_start", ctx.attempt, self.now()))
        self.maybe_fault("on_attempt_start", i)

    def on_attempt_end(self, ctx):
        i = self.tick("on_attempt_end")
        self.trace.append(
            (
                "att_end",
                ctx.attempt,
                ctx.decision.value if ctx.decision is not None else None,
                ctx.stop_reason.value if ctx.stop_reason is not None else None,
                ctx.cause,
                ctx.sleep_s,
                self.now(),
            )
        )
        self.maybe_fault("on_attempt_end", i)


# ----------------------------------------------------------------------------
# spies around the real Budget / CircuitBreaker
# ----------------------------------------------------------------------------


class SpyBreaker:
    """Duck-typed breaker that forwards to a real CircuitBreaker and records calls."""

    falsy = False

    def __init__(self, env: Env, real: CircuitBreaker) -> None:
        self._env = env
        self._real = real

    def __bool__(self) -> bool:
        return not self.falsy  # a breaker subclass may define __bool__/__len__ (e.g. "is it closed?")

    @property
    def state(self):
        return self._real.state

    def allow(self):
        d = self._real.allow()
        self._env.trace.append(("brk", "allow", None, (d.allowed, d.state.value, d.event), self._env.now()))
        return d

    def record_success(self):
        r = self._real.record_success()
        self._env.trace.append(("brk", "record_success", None, r, self._env.now()))
        return r

    def record_failure(self, klass):
        r = self._real.record_failure(klass)
        self._env.trace.append(("brk", "record_failure", getattr(klass, "name", repr(klass)), r, self._env.now()))
        return r

    def record_cancel(self):
        r = self._real.record_cancel()
        self._env.trace.append(("brk", "record_cancel", None, r, self._env.now()))
        return r


def make_breaker(env: Env, spec: dict) -> SpyBreaker:
    kw: dict = dict(
        failure_threshold=spec.get("threshold", 2),
        window_s=g(spec.get("window", 64 * 60)),
        recovery_timeout_s=g(spec.get("recovery", 64 * 30)),
    )
    if spec.get("trip_on") is not None:
        kw["trip_on"] = {ErrorClass[k] for k in spec["trip_on"]}
    if spec.get("class_thresholds"):
        kw["class_thresholds"] = {ErrorClass[k]: v for k, v in spec["class_thresholds"].items()}
    real = CircuitBreaker(**kw)
    pre = spec.get("pre")
    if pre in ("open", "half_open_ready", "probe_taken", "probe_released"):
        # open the circuit through its public API, then (optionally) wait out the recovery timeout
        trip = sorted(spec.get("trip_on") or ["TRANSIENT"])[0] if spec.get("trip_on") != [] else None
        if spec.get("class_thresholds"):
            trip = sorted(spec["class_thresholds"])[0]
        if trip is None:
            raise HarnessError("cannot pre-open a breaker that trips on nothing")
        for _ in range(kw["failure_threshold"]):
            real.record_failure(ErrorClass[trip])
        if real.state.value != "open":
            raise HarnessError("breaker prelude failed to open the circuit")
        if pre in ("half_open_ready", "probe_taken", "probe_released"):
            env.clock.t += kw["recovery_timeout_s"]
        if pre in ("probe_taken", "probe_released"):
            if not real.allow().allowed:
                raise HarnessError("breaker prelude: probe not admitted")
        if pre == "probe_released":
            real.record_cancel()  # an earlier probe was aborted: half-open, slot free
    spy = SpyBreaker(env, real)
    spy.falsy = bool(spec.get("falsy"))
    return spy


class MeteredBudget(Budget):
    """A Budget subclass with a length (tokens in use): falsy while nothing is in use."""

    def __len__(self) -> int:
        return 0


def apply_reconfigure(env: Env, spec: dict) -> None:
    """The caller changes public configuration attributes of a policy object between two calls."""
    from datetime import timedelta

    t = env.target
    if t is None:
        raise HarnessError("this entry point exposes no policy object to reconfigure")
    retry = t if isinstance(t, (Retry, AsyncRetry, RetryPolicy, AsyncRetryPolicy)) else getattr(t, "retry", None)
    env.trace.append(("reconfigure", dict(spec)))
    for k, val in spec.items():
        if k == "deadline":
            retry.deadline = timedelta(seconds=g(val))
            env.deadline_ticks = val  # scripted "until deadline+d" durations refer to the deadline in force
        elif k == "max_attempts":
            retry.max_attempts = val
        elif k == "max_unknown":
            retry.max_unknown_attempts = val
        elif k == "per_class":
            retry.per_class_max_attempts = {ErrorClass[c]: n for c, n in val.items()}
        else:
            raise HarnessError(f"unknown reconfigure key {k!r}")


def direct_breaker_op(env: Env, op: list) -> None:
    """Direct use of the shared breaker between policy calls (recorded as ('direct', ...) + brk events)."""
    b = env.breaker
    if b is None:
        return
    kind = op[0]
    env.trace.append(("direct", list(op), env.now()))
    if kind == "adv":
        env.clock.t += g(op[1])
    elif kind == "allow":
        b.allow()
    elif kind == "succ":
        b.record_success()
    elif kind == "fail":
        b.record_failure(ErrorClass[op[1]])
    elif kind == "cancel":
        b.record_cancel()
    else:
        raise HarnessError(f"unknown direct op {op!r}")


def make_budget(env: Env, spec: dict) -> Budget:
    """Budget pre-filled with grants made `age` ticks before the start of the case."""
    b = (MeteredBudget if spec.get("falsy") else Budget)(max_retries=spec["max"], window_s=g(spec["window"]))
    clock = env.clock
    ages = sorted(spec.get("prefill") or [], reverse=True)
    saved = clock.t
    for age in ages:
        clock.t = saved - g(age)
        b.consume()
    clock.t = saved
    orig = b.consume

    def consume(cost: int = 1) -> bool:
        r = orig(cost)
        env.trace.append(("budget", r, env.now(), cost))
        return r

    b.consume = consume  # type: ignore[method-assign]
    env.budget_orig = orig
    return b


# ----------------------------------------------------------------------------
# entry points
# ----------------------------------------------------------------------------


def retry_kwargs(env: Env, cfg: dict, *, is_async: bool, placement: dict) -> dict:
    strategies = {ErrorClass[k]: env.make_strategy(k, v) for k, v in (cfg.get("strategies") or {}).items()}
    default = env.make_strategy("default", cfg["default"]) if cfg.get("default") is not None else None
    if default is None and not strategies:
        strategies = {}
    deadline = cfg.get("deadline")
    if cfg.get("deadline_s") is not None:
        deadline_s = cfg["deadline_s"]
    else:
        deadline_s = FAR_DEADLINE_S if deadline is None else g(deadline)
    kw: dict = dict(
        classifier=env.classifier,
        result_classifier=env.result_classifier if cfg.get("result_classifier", True) else None,
        strategy=default,
        strategies=strategies if (strategies or default is None) else None,
        budget=env.budget,
        deadline_s=deadline_s,
        max_attempts=cfg.get("max_attempts", 3),
        max_unknown_attempts=cfg.get("max_unknown"),
        attempt_timeout_s=cfg.get("attempt_timeout"),
        per_class_max_attempts={ErrorClass[k]: v for k, v in (cfg.get("per_class") or {}).items()} or None,
    )
    kw.update(policy_level_callbacks(env, placement, is_async))
    return kw


def _flavour(placement: dict, is_async: bool, what: str) -> str:
    if not is_async:
        return "sync"
    return placement.get(what + "_flavour", "async")


def _wrap_all(placement: dict, kw: dict, level: str) -> dict:
    for k in list(kw):
        kw[k] = maybe_falsy(placement, f"{level}.{k}", kw[k])
    return kw


def policy_level_callbacks(env: Env, placement: dict, is_async: bool) -> dict:
    return _wrap_all(placement, _policy_level_callbacks(env, placement, is_async), "policy")


def call_level_callbacks(env: Env, placement: dict, is_async: bool) -> dict:
    return _wrap_all(placement, _call_level_callbacks(env, placement, is_async), "call")


def _policy_level_callbacks(env: Env, placement: dict, is_async: bool) -> dict:
    kw: dict = {}
    if placement.get("sleeper", "call") in ("policy", "both"):
        kw["sleeper"] = env.make_sleeper("policy", _flavour(placement, is_async, "sleeper"))
    if placement.get("before", "call") in ("policy", "both"):
        kw["before_sleep"] = env.make_before_sleep("policy", _flavour(placement, is_async, "before"))
    if placement.get("handler", "call") in ("policy", "both") and env.call_has_handler:
        kw["sleep"] = env.make_handler("policy")
    return kw


def _call_level_callbacks(env: Env, placement: dict, is_async: bool) -> dict:
    kw: dict = {}
    if placement.get("sleeper", "call") in ("call", "both"):
        kw["sleeper"] = env.make_sleeper("call", _flavour(placement, is_async, "sleeper"))
    if placement.get("before", "call") in ("call", "both"):
        kw["before_sleep"] = env.make_before_sleep("call", _flavour(placement, is_async, "before"))
    if placement.get("handler", "call") in ("call", "both") and env.call_has_handler:
        kw["sleep"] = env.make_handler("call")
    return kw


ENTRY_APIS = (
    "Retry",
    "Policy",
    "RetryPolicy",
    "Retry.from_config",
    "RetryPolicy.from_config",
    "Retry.context",
    "Policy.context",
    "RetryPolicy.context",
    "decorator",
    "Policy.noretry",
    "Policy.proxy",
)


def parse_entry(entry: str) -> dict:
    """'Policy.call', 'AsyncRetry.execute', 'Retry.context.call', 'decorator.call', 'AsyncPolicy.noretry.execute'."""
    parts = entry.split(".")
    is_async = parts[0].startswith("Async") or parts[0] == "adecorator"
    base = parts[0][5:] if parts[0].startswith("Async") else parts[0]
    if base == "adecorator":
        base = "decorator"
    mode = parts[-1]
    variant = ".".join(parts[1:-1])
    api = base + ("." + variant if variant else "")
    if api not in ENTRY_APIS:
        raise HarnessError(f"unknown entry {entry!r}")
    if mode not in ("call", "execute"):
        raise HarnessError(f"unknown mode in {entry!r}")
    return {"api": api, "mode": mode, "async": is_async}


_LOOP = None
USE_LOOP = False  # set while a case with attempt_timeout_s runs: asyncio.wait_for needs a real event loop


def _loop():
    global _LOOP
    if _LOOP is None or _LOOP.is_closed():
        _LOOP = asyncio.new_event_loop()
    return _LOOP


def drive(coro) -> Any:
    """Run a coroutine that never suspends (E1); suspension is a harness error here.

    With USE_LOOP the coroutine runs on a real asyncio loop instead (its clock is the virtual one)."""
    if USE_LOOP:
        return _loop().run_until_complete(coro)
    try:
        y = coro.send(None)
    except StopIteration as si:
        return si.value
    coro.close()
    raise HarnessError(f"unexpected suspension: {y!r}")


def drive_steps(env: "Env", coro, inject: tuple | None):
    """E3: step a coroutine; at suspension number inject[0] throw inject[1] into it (or close it)."""
    k = 0
    y = coro.send(None)
    while True:
        tag = getattr(y, "tag", repr(y))
        env.trace.append(("suspend", k, tag))
        env.suspensions = k + 1
        if inject is not None and inject[0] == k:
            env.trace.append(("inject", k, inject[1]))
            if inject[1] == "close":
                coro.close()
                raise _Closed()
            y = coro.throw(make_fault(inject[1]))
        else:
            y = coro.send(None)
        k += 1


class _Proxy:
    """Forwards everything to the wrapped object through __getattr__."""

    def __init__(self, inner) -> None:
        self._inner = inner

    def __getattr__(self, name):
        return getattr(self._inner, name)


class _Closed(Exception):
    """The driver closed the coroutine (GeneratorExit delivered and honoured)."""


@dataclass
class CallResult:
    kind: str  # "return" | "raise"
    obj: Any


def run_case(
    case: dict,
    entry: str,
    *,
    faults: dict | None = None,
    env: Env | None = None,
    suspend: bool = False,
    inject: tuple | None = None,
    keep_clock: bool = False,
) -> Env:
    """Run every call of the case through `entry`; returns the Env (trace in env.trace).

    The trace contains ("call_begin", j) ... ("call_end", j, kind, obj) per call.
    """
    e = parse_entry(entry)
    is_async = e["async"]
    cfg = case["cfg"]
    placement = case.get("placement") or {}
    calls = case.get("calls") or [case.get("call") or {"script": case.get("script", [])}]
    env = env or Env(case)
    env.suspend = suspend
    env.suspensions = 0
    if faults:
        env.faults = dict(faults)
    env.call = calls[0]
    env.call_has_handler = any(c.get("handler") is not None for c in calls)
    global USE_LOOP
    bootstrap.set_clock(env.clock)
    USE_LOOP = cfg.get("attempt_timeout") is not None and not suspend
    try:
        if cfg.get("budget") is not None and env.budget is None:
            env.budget = make_budget(env, cfg["budget"])
        if cfg.get("breaker") is not None and env.breaker is None:
            env.breaker = make_breaker(env, cfg["breaker"])
        entries = case.get("entries")
        if entries:
            runners = [build_entry(env, parse_entry(x), cfg, placement) for x in entries]
        else:
            runners = [build_entry(env, e, cfg, placement)]
        for j, call in enumerate(calls):
            runner = runners[j % len(runners)]
            env.call = call
            env.call_idx = j
            for k in env.n:
                env.n[k] = 0
            env.strat_idx = {}
            env.objs = {}
            env.objs_by_call.append(env.objs)
            if call.get("advance"):
                env.clock.t += g(call["advance"])
            for op in call.get("pre_ops") or []:
                direct_breaker_op(env, op)
            if call.get("reconfigure"):
                apply_reconfigure(env, call["reconfigure"])
            env.call_t0 = env.clock.t
            env.trace.append(("call_begin", j, env.now()))
            BadReprRes.armed = True
            try:
                r = runner()
                if suspend and hasattr(r, "send"):
                    try:
                        drive_steps(env, r, inject if j == len(calls) - 1 else None)
                    except StopIteration as si:
                        r = si.value
                BadReprRes.armed = False
                env.trace.append(("call_end", j, "return", r, env.now()))
            except _Closed:
                BadReprRes.armed = False
                env.trace.append(("call_end", j, "closed", None, env.now()))
            except BaseException as x:  # noqa: BLE001 - the exception is the observation
                BadReprRes.armed = False
                if isinstance(x, HarnessError):
                    raise
                env.trace.append(("call_end", j, "raise", x, env.now()))
    finally:
        USE_LOOP = False
        if not keep_clock:
            bootstrap.set_clock(None)
    return env


def build_entry(env: Env, e: dict, cfg: dict, placement: dict):
    """Return a zero-argument callable performing one call through the entry point."""
    api, mode, is_async = e["api"], e["mode"], e["async"]
    op = env.aop if is_async else env.op
    use_abort = lambda: env.call.get("abort") is not None or env.call.get("poll", False)  # noqa: E731
    att_hooks = placement.get("attempt_hooks", "call")
    timeline = placement.get("timeline", True)

    def call_kwargs() -> dict:
        kw: dict = {}
        opname = cfg.get("operation", "op")
        if opname is not None:  # None: the caller names no operation at all
            kw["operation"] = opname
        if placement.get("metric", True):
            kw["on_metric"] = maybe_falsy(placement, "call.on_metric", env.on_metric)
        if placement.get("log", True):
            kw["on_log"] = maybe_falsy(placement, "call.on_log", env.on_log)
        if use_abort():
            pred = _Predicate(env).answer if placement.get("abort_owner", "temp") == "temp" else env.abort_if
            kw["abort_if"] = maybe_falsy(placement, "call.abort_if", pred)
        if att_hooks == "call":
            kw["on_attempt_start"] = maybe_falsy(placement, "call.on_attempt_start", env.on_attempt_start)
            kw["on_attempt_end"] = maybe_falsy(placement, "call.on_attempt_end", env.on_attempt_end)
        return kw

    def finish(fn, kw):
        if mode == "execute" and timeline:
            if timeline == "instance":
                env.timeline_obj = redress.RetryTimeline()  # the caller's own collector
                kw["capture_timeline"] = env.timeline_obj
            else:
                kw["capture_timeline"] = True
        if is_async:
            return drive(fn(op, **kw)) if not env.suspend else fn(op, **kw)
        return fn(op, **kw)

    rkw = None
    if api != "Policy.noretry":
        rkw = retry_kwargs(env, cfg, is_async=is_async, placement=placement)
    R = AsyncRetry if is_async else Retry
    P = AsyncPolicy if is_async else Policy
    RP = AsyncRetryPolicy if is_async else RetryPolicy
    # the budget may be handed over after construction: `policy.budget = shared` (the decorator offers no object)
    late_budget = bool((cfg.get("budget") or {}).get("late")) and rkw is not None and api != "decorator"
    if late_budget:
        rkw = {**rkw, "budget": None}

    def attach_hooks(retry_obj):
        if att_hooks == "policy":
            retry_obj.on_attempt_start = env.on_attempt_start
            retry_obj.on_attempt_end = env.on_attempt_end

    if api in ("Retry", "Retry.from_config", "Retry.context"):
        if api == "Retry.from_config":
            obj = R.from_config(_config_from(rkw), classifier=rkw["classifier"])
        else:
            obj = R(**rkw)
        attach_hooks(obj)
        target = obj
        if late_budget:
            obj.budget = env.budget
    elif api in ("Policy", "Policy.context", "Policy.proxy"):
        r = R(**rkw)
        attach_hooks(r)
        if late_budget:
            r.budget = env.budget
        if api == "Policy.proxy":
            r = _Proxy(r)  # a delegating wrapper around the retry component (tracing / recording decorators)
        target = P(retry=r, circuit_breaker=env.breaker)
    elif api in ("RetryPolicy", "RetryPolicy.from_config", "RetryPolicy.context"):
        if api == "RetryPolicy.from_config":
            target = RP.from_config(_config_from(rkw), classifier=rkw["classifier"])
        else:
            target = RP(**rkw)
        attach_hooks(target.retry)
        if late_budget:
            target.budget = env.budget  # through the facade
    elif api == "Policy.noretry":
        target = P(retry=None, circuit_breaker=env.breaker)
    elif api == "decorator":
        target = None
    else:
        raise HarnessError(api)
    env.target = target

    if api.endswith(".context"):
        if mode != "call":
            raise HarnessError("context managers only offer call")

        def run_ctx():
            def bound_arguments():
                kw = call_kwargs()
                kw.update(call_level_callbacks(env, placement, is_async))
                return kw

            # like user code: policy.context(abort_if=Deadline(30).expired, ...) - nobody else keeps the arguments
            ctx = target.context(**bound_arguments())  # (reference counting frees unreferenced arguments at once)
            # the context manager forwards positional and keyword arguments to the operation
            def sop(a, b=None, *, c=None):
                env.check_args("context", (a, b, c))
                return op()

            async def aop_args(a, b=None, *, c=None):
                env.check_args("context", (a, b, c))
                return await op()

            if is_async:

                async def go():
                    async with ctx as call:
                        return await call(aop_args, 1, "two", c=3)

                return drive(go()) if not env.suspend else go()
            with ctx as call:
                return call(sop, 1, "two", c=3)

        return run_ctx

    if api == "decorator":
        if mode != "call":
            raise HarnessError("decorator only offers call")

        def run_dec():
            kw = dict(rkw)
            ck = call_kwargs()
            kw.update(ck)
            # the decorator takes sleeper / handler / before_sleep at construction only
            for name, maker in call_level_callbacks(env, placement, is_async).items():
                kw[name] = maker
            if is_async:

                async def fn(a, b=None, *, c=None):
                    env.check_args("decorator", (a, b, c))
                    return await op()

                wrapped = redress.retry(**kw)(fn)
                return drive(wrapped(1, "two", c=3)) if not env.suspend else wrapped(1, "two", c=3)

            def sfn(a, b=None, *, c=None):
                env.check_args("decorator", (a, b, c))
                return op()

            wrapped = redress.retry(**kw)(sfn)
            return wrapped(1, "two", c=3)

        return run_dec

    def run_plain():
        kw = call_kwargs()
        if api != "Policy.noretry":
            kw.update(call_level_callbacks(env, placement, is_async))
        return finish(getattr(target, mode), kw)

    return run_plain


def _config_from(rkw: dict) -> RetryConfig:
    return RetryConfig(
        deadline_s=rkw["deadline_s"],
        max_attempts=rkw["max_attempts"],
        max_unknown_attempts=rkw["max_unknown_attempts"],
        per_class_max_attempts=rkw["per_class_max_attempts"],
        default_strategy=rkw["strategy"],
        class_strategies=rkw["strategies"],
        result_classifier=rkw["result_classifier"],
        sleep=rkw.get("sleep"),
        before_sleep=rkw.get("before_sleep"),
        sleeper=rkw.get("sleeper"),
        budget=rkw["budget"],
        attempt_timeout_s=rkw.get("attempt_timeout_s"),
    )


# ----------------------------------------------------------------------------
# trace analysis shared by the oracles
# ----------------------------------------------------------------------------


def split_calls(trace: list) -> list[list]:
    """Split a multi-call trace into per-call event lists (call_begin .. call_end inclusive)."""
    out: list[list] = []
    cur: list | None = None
    for ev in trace:
        if ev[0] == "call_begin":
            cur = [ev]
        elif cur is not None:
            cur.append(ev)
            if ev[0] == "call_end":
                out.append(cur)
                cur = None
    return out


def describe_final(env_objs: dict, end_ev: tuple) -> dict:
    """Normalise how a call ended into a comparable description."""
    _, j, kind, obj, t = end_ev
    if kind == "closed":
        return {"via": "closed"}

    def idx_of(o):
        for i in sorted(env_objs, reverse=True):  # latest first: None may be returned by several attempts
            if env_objs[i] is o:
                return i
        return None

    none_idx = idx_of(None)

    if kind == "return":
        if isinstance(obj, RetryOutcome):
            return {
                "via": "outcome",
                "ok": obj.ok,
                "value_idx": idx_of(obj.value) if (obj.value is not None or obj.ok) else None,
                "stop_reason": obj.stop_reason.value if obj.stop_reason is not None else None,
                "attempts": obj.attempts,
                "last_class": obj.last_class.name if obj.last_class is not None else None,
                "last_exc_idx": idx_of(obj.last_exception) if obj.last_exception is not None else None,
                "last_exc_type": type(obj.last_exception).__name__ if obj.last_exception is not None else None,
                "last_res_idx": idx_of(obj.last_result) if obj.last_result is not None else (none_idx if obj.cause == "result" else None),
                "cause": obj.cause,
                "next_sleep_s": obj.next_sleep_s,
                "elapsed_s": obj.elapsed_s,
                "timeline": obj.timeline,
            }
        return {"via": "return", "value_idx": idx_of(obj), "value_type": type(obj).__name__}
    x = obj
    d = {"via": "raise", "type": type(x).__name__, "idx": idx_of(x)}
    if isinstance(x, RetryExhaustedError) and idx_of(x) is None:
        d.update(
            stop_reason=x.stop_reason.value if x.stop_reason is not None else None,
            attempts=x.attempts,
            last_class=x.last_class.name if x.last_class is not None else None,
            last_exc_idx=idx_of(x.last_exception) if x.last_exception is not None else None,
            last_res_idx=idx_of(x.last_result) if x.last_result is not None else (none_idx if x.last_exception is None else None),
            next_sleep_s=x.next_sleep_s,
        )
    return d
