"""Process-wide dispatcher for time / sleep / lock primitives.

Must be imported (and `install()` called) BEFORE `redress` is imported, so that
`clock=time.monotonic` defaults, `from time import monotonic` styles and
`threading.Lock()` calls inside the library all reach the forwarding functions.

When no virtual clock / scheduler is active the dispatchers behave exactly like
the originals, so Hypothesis, asyncio and multiprocessing keep working.
"""
import asyncio
import random
import sys
import threading
import time

REAL = {
    "monotonic": time.monotonic,
    "time": time.time,
    "sleep": time.sleep,
    "asleep": asyncio.sleep,
    "Lock": threading.Lock,
    "RLock": threading.RLock,
    "uniform": random.uniform,
    "random": random.random,
}

# When set to a float r in [0, 1], random.uniform(a, b) returns a + (b - a) * r and
# random.random() returns r, so "whatever random draw occurs" is a generated quantity.
ACTIVE_DRAW = None

# The currently active virtual clock (vf.harness.VClock) or None.
ACTIVE_CLOCK = None
# The currently active thread scheduler (vf.sched.Sched) or None.
ACTIVE_SCHED = None
_installed = False


def _monotonic():
    c = ACTIVE_CLOCK
    if c is None:
        return REAL["monotonic"]()
    return c.monotonic()


def _time():
    c = ACTIVE_CLOCK
    if c is None:
        return REAL["time"]()
    return c.time()


def _sleep(s):
    c = ACTIVE_CLOCK
    if c is None:
        return REAL["sleep"](s)
    return c.default_sleep(s)


def _asleep(delay, result=None):
    c = ACTIVE_CLOCK
    if c is None:
        return REAL["asleep"](delay, result)
    return c.default_async_sleep(delay, result)


def _Lock():
    s = ACTIVE_SCHED
    if s is None:
        return REAL["Lock"]()
    return s.make_lock(reentrant=False)


def _RLock():
    s = ACTIVE_SCHED
    if s is None:
        return REAL["RLock"]()
    return s.make_lock(reentrant=True)


def _uniform(a, b):
    r = ACTIVE_DRAW
    if r is None:
        return REAL["uniform"](a, b)
    return a + (b - a) * r


def _random():
    r = ACTIVE_DRAW
    if r is None:
        return REAL["random"]()
    return r


def set_draw(r):
    global ACTIVE_DRAW
    ACTIVE_DRAW = r


def install():
    global _installed
    if _installed:
        return
    if "redress" in sys.modules:
        raise RuntimeError("vf.bootstrap.install() must run before redress is imported")
    time.monotonic = _monotonic
    time.time = _time
    time.sleep = _sleep
    asyncio.sleep = _asleep
    # asyncio.tasks.sleep is what `asyncio.sleep` resolves to for `from asyncio import sleep`
    try:
        import asyncio.tasks as _tasks

        _tasks.sleep = _asleep
    except Exception:  # pragma: no cover
        pass
    threading.Lock = _Lock
    threading.RLock = _RLock
    random.uniform = _uniform
    random.random = _random
    _installed = True


def set_clock(clock):
    global ACTIVE_CLOCK
    ACTIVE_CLOCK = clock


def set_sched(sched):
    global ACTIVE_SCHED
    ACTIVE_SCHED = sched
