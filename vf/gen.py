"""Hypothesis strategies producing JSON-able cases for the E1 harness."""
from __future__ import annotations

from hypothesis import strategies as st

RETRYABLE = ["TRANSIENT", "SERVER_ERROR", "RATE_LIMIT", "CONCURRENCY", "UNKNOWN"]
NONRETRY = ["PERMANENT", "AUTH", "PERMISSION"]
ALL = RETRYABLE + NONRETRY

import random as _random

_HUNDRED = list(range(100))
_PERMS: dict = {}


def chance(draw, p: float, site: str = "") -> bool:
    """True with probability ~p.

    sampled_from is uniform (st.integers favours small values), and every call site maps the drawn
    index through its own fixed permutation, so Hypothesis's habit of repeating earlier choices does
    not switch several rare options on together.
    """
    perm = _PERMS.get(site)
    if perm is None:
        perm = list(range(100))
        _random.Random("vf-gen-" + site).shuffle(perm)
        _PERMS[site] = perm
    return perm[draw(st.sampled_from(_HUNDRED))] < p * 100


NAN = float("nan")
INF = float("inf")


def klass_st(p_retryable: float = 0.7):
    """Weighted so that runs are long enough to be interesting (an unweighted draw ends 3/8 of runs at once)."""
    n = max(1, round(p_retryable * 20))
    pool = [RETRYABLE[i % len(RETRYABLE)] for i in range(n * 3)] + [NONRETRY[i % len(NONRETRY)] for i in range(max(0, 20 - n) * 3)]
    return st.sampled_from(pool)


def grid_delay(max_ticks: int = 128):
    return st.integers(0, max_ticks).map(lambda k: k / 64)


def strategy_value(hostile: bool = True, max_ticks: int = 128):
    opts = [grid_delay(max_ticks)] * 6 + [st.sampled_from([0.0, 0.015625, 0.5, 1.0])]
    if hostile:
        from decimal import Decimal
        from fractions import Fraction

        opts += [st.sampled_from([NAN, INF, -INF, -1.0, -0.015625, 1e9, 1e300]), st.integers(0, 3)]
        # other numeric types a strategy may compute with (exact on the 1/64 s grid)
        opts += [st.sampled_from([Decimal("0.5"), Decimal("0.015625"), Decimal("2"), Fraction(1, 64), Fraction(3, 2), True, 10**400, -(10**400)])]
    return st.one_of(*opts)


ALL_STYLES = ("ctx", "ctx", "ctx", "legacy", "legacy", "obj", "ctx_defaults", "ctx_kwonly", "partial", "lambda")


def strategy_spec(hostile: bool = True, styles=ALL_STYLES, max_ticks: int = 128):
    return st.fixed_dictionaries(
        {
            "vals": st.lists(strategy_value(hostile, max_ticks), min_size=1, max_size=4),
            "style": st.sampled_from(list(styles)),
        },
    )


@st.composite
def script_entry(draw, p):
    special = p.get("special", 0.05)
    result_ok = p.get("results", True)
    deadline_aware = p.get("deadline_aware", False)
    kinds = ["exc"] * 11 + ["ok"] * 3
    if result_ok:
        kinds += ["res"] * 5
    kind = draw(st.sampled_from(kinds))
    if special and chance(draw, special, "s2"):
        kind = draw(st.sampled_from(p.get("special_kinds", ["abort", "kbd", "sysexit", "cancel", "rexh", "copen"])))
    e = {"kind": kind}
    if kind == "abort" and draw(st.booleans()):
        e["alias"] = True  # raised under the library's other exported name, redress.AbortRetry
    if deadline_aware and chance(draw, 0.25, "s3"):
        e["until"] = draw(st.sampled_from([-2, -1, 0, 1, 2]))
        e["dur"] = 0
    else:
        e["dur"] = draw(st.one_of(st.integers(0, 4), st.integers(0, p.get("max_dur", 48))))
    if kind in ("exc", "res", "copen", "rexh"):
        e["klass"] = draw(klass_st(p.get("p_retryable", 0.7)))
    if kind == "exc" and chance(draw, p.get("etypes", 0.25), "etype"):
        e["etype"] = draw(st.sampled_from(["TimeoutError", "ConnectionError", "KeyError", "AssertionError", "ValueError", "OSError", "FalsyError", "FalsyError", "Group:TRANSIENT", "Group:PERMANENT", "Group:UNKNOWN", "RuntimeError:0", "RuntimeError:1", "RuntimeError:3"] + list(p.get("extra_etypes", []))))
    if kind == "exc" and chance(draw, p.get("reraise", 0.1), "reraise"):
        e["reraise_prev"] = True
    if kind == "exc" and chance(draw, p.get("chains", 0.12), "chain"):
        e["chain"] = [draw(st.sampled_from(["context", "cause"])), draw(st.sampled_from(["CircuitOpenError", "CircuitOpenError", "AbortRetryError", "KeyError", "TimeoutError"]))]
    if kind in ("res", "ok") and chance(draw, p.get("odd_results", 0.2), "rval"):
        e["rval"] = draw(st.sampled_from(["none", "falsy", "falsy", "awaitable", "exc_instance", "weird_eq", "bad_repr"]))
    if kind in ("exc", "res") and p.get("classifier_time") and chance(draw, p["classifier_time"], "cdur"):
        e["cdur"] = draw(st.sampled_from([1, 2, 4, 16, 64]))
    if kind in ("exc", "res"):
        if chance(draw, 0.1, "s4"):
            e["ra"] = draw(st.sampled_from([0.0, 0.5, 1.5, 3, -1.0, NAN, INF]))
        elif chance(draw, 0.1, "s5"):
            e["as_obj"] = True
    return e


@st.composite
def call_spec(draw, p, max_attempts: int):
    n = draw(st.sampled_from(list(range(1, max_attempts + 2))))
    script = [draw(script_entry(p)) for _ in range(n)]
    c: dict = {"script": script}
    if p.get("always_fail") and all(e["kind"] == "ok" for e in script):
        script[0]["kind"] = "exc"
        script[0]["klass"] = "TRANSIENT"
    over = p.get("overshoot", 0.3)
    if over and chance(draw, over, "s6"):
        if p.get("deadline_aware") and draw(st.booleans()):
            c["overshoot"] = draw(
                st.lists(st.one_of(st.integers(0, 8), st.sampled_from([-2, -1, 0, 1, 2]).map(lambda d: {"until": d})), max_size=max_attempts)
            )
        else:
            c["overshoot"] = draw(
                st.lists(
                    st.one_of(st.just(0), st.integers(0, 64), st.sampled_from([0, 1, 2]).map(lambda k: {"skip": True, "plus": k})),
                    max_size=max_attempts,
                )
            )
    ab = p.get("abort", 0.25)
    if ab and chance(draw, ab, "s7"):
        c["abort"] = draw(st.integers(0, 3 * max_attempts + 1))
    elif ab and chance(draw, 0.3, "abort-at"):
        # abort requested from a moment in time on (typically while the call is backing off or running an attempt)
        c["abort_at"] = draw(st.one_of(st.integers(0, 16), st.integers(0, 200)))
        c["poll"] = True
    elif ab and draw(st.booleans()):
        c["poll"] = True  # abort_if installed but never answers True
    if (c.get("abort") is not None or c.get("poll")) and chance(draw, 0.3, "abort-style"):
        c["abort_style"] = draw(st.sampled_from(["int", "obj", "none"]))
    h = p.get("handler", 0.3)
    if h and chance(draw, h, "s8"):
        c["handler"] = draw(
            st.lists(
                st.sampled_from(["sleep"] * 6 + ["defer", "abort"] + (["invalid"] if p.get("invalid_handler") else [])),
                max_size=max_attempts,
            )
        )
    if c.get("handler") is not None and p.get("handler_time") and chance(draw, p["handler_time"], "hdur"):
        c["handler_dur"] = draw(st.lists(st.sampled_from([0, 1, 4, 16, 64, 256]), max_size=max_attempts))
    return c


@st.composite
def retry_cfg(draw, p):
    max_attempts = draw(st.sampled_from(list(range(1, p.get("max_attempts", 8) + 1))))
    cfg: dict = {"max_attempts": max_attempts}
    dl = p.get("deadline", 0.5)
    if dl and chance(draw, dl, "s9"):
        cfg["deadline"] = draw(st.one_of(st.integers(1, 64), st.integers(1, 512)))
    mu = draw(st.sampled_from([None, None, None, 0, 1, 2, 3, 4]))
    cfg["max_unknown"] = mu
    if chance(draw, 0.5, "s10"):
        # caps mostly on the retryable classes (a cap on a non-retryable class can never matter)
        cfg["per_class"] = draw(st.dictionaries(st.sampled_from(RETRYABLE * 3 + ALL), st.sampled_from([0, 1, 1, 2, 2, 3, 4]), max_size=3))
    hostile = p.get("hostile_values", True)
    styles = p.get("styles", ALL_STYLES)
    max_ticks = p.get("max_delay_ticks", 128)
    nstrat = draw(st.integers(0, 3))
    if nstrat:
        cfg["strategies"] = draw(
            st.dictionaries(st.sampled_from(RETRYABLE + ["PERMANENT"]), strategy_spec(hostile, styles, max_ticks), min_size=1, max_size=nstrat)
        )
    if chance(draw, 0.93 if not cfg.get("strategies") else 0.7, "s11"):
        cfg["default"] = draw(strategy_spec(hostile, styles, max_ticks))
    if p.get("record_failure_time"):
        for spec in list((cfg.get("strategies") or {}).values()) + ([cfg["default"]] if cfg.get("default") else []):
            if chance(draw, p["record_failure_time"], "rfdur"):
                spec["style"] = "obj"  # a strategy object whose record_failure() bookkeeping takes time
                spec["rfdur"] = draw(st.sampled_from([1, 4, 16, 64]))
    at = p.get("attempt_timeout", 0)
    if at and chance(draw, at, "attempt-timeout"):
        cfg["attempt_timeout"] = 5.0  # real seconds on the sync thread-pool path (never fires: the scripted operation returns at once; a hang ends after 5 s); virtual for wait_for
    cfg["result_classifier"] = p.get("results", True) and chance(draw, 0.9, "s12")
    b = p.get("budget", 0.3)
    if b and chance(draw, b, "s13"):
        window = draw(st.integers(1, 256))
        mx = draw(st.integers(0, 4))
        cfg["budget"] = {
            "max": mx,
            "window": window,
            "prefill": draw(st.lists(st.one_of(st.integers(0, window + 2), st.sampled_from([window - 1, window, 0])), max_size=mx)),
        }
    return cfg


@st.composite
def retry_case(draw, p):
    cfg = draw(retry_cfg(p))
    ncalls = 1
    if p.get("multi_call"):
        ncalls = draw(st.integers(*p["multi_call"]))
    calls = []
    for j in range(ncalls):
        c = draw(call_spec(p, cfg["max_attempts"]))
        if j > 0 and draw(st.booleans()):
            c["advance"] = draw(st.integers(0, 64))
        calls.append(c)
    lw = p.get("late_wake", 0.15 if p.get("deadline_aware") else 0.0)
    if lw and cfg.get("deadline") is not None and chance(draw, lw, "late-wake"):
        # the sleeper comes back around the deadline (a loaded host, a coarse timer): the check made after
        # waking is the one that has to end the run
        j = draw(st.sampled_from([0, 0, 0, 1, 2]))
        calls[0]["overshoot"] = [0] * j + [{"until": draw(st.sampled_from([1, 1, 2, 16, 0, -1]))}]
    case: dict = {"cfg": cfg, "calls": calls}
    if p.get("jumps") and draw(st.booleans()):
        case["jumps"] = draw(st.lists(st.sampled_from([0, 3600, -3600, 86400, -86400 * 365, 0.5]), min_size=1, max_size=6))
    if p.get("placements"):
        case["placement"] = draw(placement(p))
    if p.get("offgrid_delays") and chance(draw, p["offgrid_delays"], "offgrid"):
        off = [1 / 3, 0.1234567891, 2.5e-07, 1e-07, 0.7071067811865476, 2.00000049]
        for spec in list((cfg.get("strategies") or {}).values()) + ([cfg["default"]] if cfg.get("default") else []):
            spec["vals"] = [draw(st.sampled_from(off)) for _ in spec["vals"]]
        for c in calls:
            c["overshoot"] = [{"skip": True, "plus": 0}] * (cfg["max_attempts"] + 1)
    if p.get("falsy_components") and chance(draw, p["falsy_components"], "falsy-comp"):
        if cfg.get("budget"):
            cfg["budget"]["falsy"] = True
    if chance(draw, p.get("falsy_callbacks", 0.15), "falsy-cb"):
        pl = case.setdefault("placement", {})
        pl["falsy"] = draw(
            st.lists(
                st.sampled_from(
                    ["call.sleep", "call.sleeper", "call.before_sleep", "policy.sleep", "policy.sleeper", "policy.before_sleep",
                     "call.on_metric", "call.on_log", "call.abort_if", "call.on_attempt_start", "call.on_attempt_end"]
                ),
                min_size=1,
                max_size=4,
                unique=True,
            )
        )
    return case


@st.composite
def placement(draw, p):
    where = st.sampled_from(["call", "policy", "both", "none"])
    d = {
        "sleeper": draw(where),
        "before": draw(where),
        "handler": draw(st.sampled_from(["call", "policy", "both"])),
        "sleeper_flavour": draw(st.sampled_from(["async", "sync", "awaitable", "awaitable_obj", "gen_coroutine"])),
        "before_flavour": draw(st.sampled_from(["async", "sync", "awaitable", "awaitable_obj", "gen_coroutine"])),
        "attempt_hooks": draw(st.sampled_from(["call", "policy", "none"])),
    }
    return d


def breaker_spec():
    return st.fixed_dictionaries(
        {
            "threshold": st.integers(1, 4),
            "window": st.sampled_from([16, 64, 640, 3840]),
            "recovery": st.sampled_from([16, 64, 640, 1920]),
        },
        optional={
            "falsy": st.sampled_from([True, False, False]),
            "trip_on": st.one_of(st.none(), st.lists(st.sampled_from(ALL), max_size=4, unique=True)),
            "class_thresholds": st.dictionaries(st.sampled_from(ALL), st.integers(1, 3), max_size=2),
        },
    )
