"""Trace oracles for the retry-loop properties (C01–C05, C09, C11–C16).

Every oracle is written from the property statement, not from the implementation: it
looks only at the observable trace produced by `vf.harness` and at the case script.
"""
from __future__ import annotations

import math
from dataclasses import dataclass, field
from typing import Any

from .harness import NONRETRY, Env, Scripted, describe_final, g, split_calls

BREAKER_EVENTS = {"circuit_opened", "circuit_half_open", "circuit_closed", "circuit_rejected"}
TERMINAL_BY_REASON = {
    "MAX_ATTEMPTS_GLOBAL": "max_attempts_exceeded",
    "MAX_ATTEMPTS_PER_CLASS": "max_attempts_exceeded",
    "DEADLINE_EXCEEDED": "deadline_exceeded",
    "MAX_UNKNOWN_ATTEMPTS": "max_unknown_attempts_exceeded",
    "NON_RETRYABLE_CLASS": "permanent_fail",
    "NO_STRATEGY": "no_strategy_configured",
    "BUDGET_EXHAUSTED": "budget_exhausted",
    "SCHEDULED": "scheduled",
    "ABORTED": "aborted",
}
FAIL_KINDS = ("exc", "res", "copen")
CANCEL_KINDS = {"kbd": "KeyboardInterrupt", "sysexit": "SystemExit", "cancel": "CancelledError", "genexit": "GeneratorExit"}


@dataclass
class Att:
    n: int
    t_op: int
    t_end: int | None
    kind: str | None
    entry: dict
    ev: list = field(default_factory=list)  # events after op_end until the next op / call end
    t_op_s: float = 0.0
    t_end_s: float | None = None

    def of(self, kind: str) -> list:
        return [(i, e) for i, e in enumerate(self.ev) if e[0] == kind]

    @property
    def klass(self) -> str | None:
        return self.entry.get("klass") if self.kind in ("exc", "res", "copen") else None

    def first_true_poll(self) -> int | None:
        for i, e in enumerate(self.ev):
            if e[0] == "poll" and e[2]:
                return i
        return None

    def metrics(self, name: str | None = None, retry: bool | None = None) -> list:
        out = []
        for i, e in enumerate(self.ev):
            if e[0] != "metric" or e[1] in BREAKER_EVENTS:
                continue
            if name is not None and e[1] != name:
                continue
            out.append((i, e))
        return out


@dataclass
class CallView:
    j: int
    call: dict
    begin: int
    events: list
    end: tuple
    final: dict
    pre: list
    atts: list
    objs: dict

    def rel(self, t: int) -> int:
        return t - self.begin

    @property
    def end_tick(self) -> int:
        return self.end[4] - self.begin


def script_entry(call: dict, i: int) -> dict:
    script = call.get("script") or []
    if not script:
        return {"dur": 0, "kind": "ok"}
    if call.get("cycle"):
        return script[i % len(script)]
    return script[i] if i < len(script) else script[-1]


def views(case: dict, env: Env) -> list:
    calls = case.get("calls") or [case.get("call") or {"script": case.get("script", [])}]
    out = []
    for j, evs in enumerate(split_calls(env.trace)):
        begin = evs[0][2]
        end = evs[-1]
        body = evs[1:-1]
        pre: list = []
        atts: list = []
        cur: Att | None = None
        for e in body:
            if e[0] == "op":
                ent = script_entry(calls[j], e[1] - 1)
                prev = atts[-1] if atts else None
                if ent.get("reraise_prev") and prev is not None and prev.entry.get("kind") == "exc" and ent.get("kind") == "exc" and prev.entry.get("klass") == ent.get("klass"):
                    # the operation raised the previous attempt's exception object again: its attributes travel with it
                    ent = {**ent, **{k: prev.entry.get(k) for k in ("ra", "as_obj", "etype", "chain")}}
                cur = Att(n=e[1], t_op=e[2] - begin, t_end=None, kind=None, entry=ent, t_op_s=e[3] - g(begin))
                atts.append(cur)
            elif e[0] == "op_end" and cur is not None and cur.t_end is None:
                cur.t_end = e[2] - begin
                cur.kind = e[3]
                cur.t_end_s = e[4] - g(begin)
            elif cur is None:
                pre.append(e)
            else:
                cur.ev.append(e)
        objs = env.objs_by_call[j] if j < len(env.objs_by_call) else {}
        out.append(
            CallView(j=j, call=calls[j], begin=begin, events=body, end=end, final=describe_final(objs, end), pre=pre, atts=atts, objs=objs)
        )
    return out


# ----------------------------------------------------------------------------
# how the call ended, in property-level terms
# ----------------------------------------------------------------------------


def ending(cv: CallView) -> dict:
    """kind in value | fail | abort | propagate | circuit_open | other; plus delivered fields."""
    f = cv.final
    if f["via"] == "closed":
        return {"kind": "closed"}
    if f["via"] == "outcome":
        if f["ok"]:
            return {"kind": "value", "idx": f["value_idx"], "mode": "execute"}
        if f["stop_reason"] == "ABORTED":
            return {"kind": "abort", "mode": "execute", **f}
        if f["last_exc_type"] == "CircuitOpenError" and f["attempts"] == 0:
            return {"kind": "circuit_open", "mode": "execute"}
        return {"kind": "fail", "mode": "execute", "reason": f["stop_reason"], **f}
    if f["via"] == "return":
        return {"kind": "value", "idx": f["value_idx"], "mode": "call"}
    t = f["type"]
    if t == "AbortRetryError":
        return {"kind": "abort", "mode": "call"}
    if f["idx"] is not None:
        x = cv.objs[f["idx"]]
        k = getattr(x, "klass", None)
        if isinstance(x, Scripted):
            return {"kind": "fail", "mode": "call", "reason": None, "cause": "exception", "exc_idx": f["idx"], "raised": True}
        return {"kind": "propagate", "type": t, "idx": f["idx"], "klass": k}
    if t == "RetryExhaustedError":
        return {
            "kind": "fail",
            "mode": "call",
            "reason": f["stop_reason"],
            "attempts": f["attempts"],
            "last_class": f["last_class"],
            "last_exc_idx": f["last_exc_idx"],
            "last_res_idx": f["last_res_idx"],
            "next_sleep_s": f["next_sleep_s"],
            "rexh": True,
        }
    if t == "CircuitOpenError":
        return {"kind": "circuit_open", "mode": "call"}
    return {"kind": "other", "type": t}


def reported_reason(cv: CallView) -> str | None:
    """Stop reason delivered to the caller, or (call mode re-raising) announced by the terminal event."""
    end = ending(cv)
    if end.get("reason"):
        return end["reason"]
    if end["kind"] == "abort":
        return "ABORTED"
    for e in reversed(cv.events):
        if e[0] == "metric" and e[1] not in BREAKER_EVENTS:
            return e[4].get("stop_reason")
        if e[0] == "log" and e[1] not in BREAKER_EVENTS:
            return e[2].get("stop_reason")
    return None


# ----------------------------------------------------------------------------
# reference model pieces (spec level, integer ticks)
# ----------------------------------------------------------------------------


class BudgetModel:
    def __init__(self, spec: dict | None) -> None:
        self.spec = spec
        self.grants: list = []
        if spec is not None:
            self.grants = sorted(-a for a in (spec.get("prefill") or []))

    def live(self, t: int) -> int:
        w = self.spec["window"]
        return sum(1 for x in self.grants if t - x < w)

    def would_refuse(self, t: int, cost: int = 1) -> bool:
        return self.spec is not None and self.live(t) + cost > self.spec["max"]

    def grant(self, t: int, cost: int = 1) -> None:
        self.grants.extend([t] * cost)


FAR_TICKS = 64_000_000  # harness default deadline_s = 1e6 s when the case sets none


def deadline_ticks(cfg: dict) -> int:
    d = cfg.get("deadline")
    return FAR_TICKS if d is None else d


def strategy_key(cfg: dict, klass: str) -> str | None:
    if klass in (cfg.get("strategies") or {}):
        return klass
    if cfg.get("default") is not None:
        return "default"
    return None


def stop_conditions(cfg: dict, klass: str, n: int, t_fail: int, counts: dict) -> set:
    """The set H of stop conditions that hold for a failure of `klass` at attempt n, time t_fail.

    `counts` already includes this failure."""
    H = set()
    lim = (cfg.get("per_class") or {}).get(klass)
    if lim is not None and counts.get(klass, 0) > lim:
        H.add("MAX_ATTEMPTS_PER_CLASS")
    if klass in NONRETRY:
        H.add("NON_RETRYABLE_CLASS")
    mu = cfg.get("max_unknown")
    if klass == "UNKNOWN" and mu is not None and counts.get("UNKNOWN", 0) > mu:
        H.add("MAX_UNKNOWN_ATTEMPTS")
    if t_fail >= deadline_ticks(cfg):
        H.add("DEADLINE_EXCEEDED")
    if strategy_key(cfg, klass) is None:
        H.add("NO_STRATEGY")
    if n >= cfg.get("max_attempts", 3):
        H.add("MAX_ATTEMPTS_GLOBAL")
    return H


def applied_delay(raw: Any, remaining_ticks: int | None) -> float:
    """Property C05: non-finite or negative -> 0, capped at the time remaining."""
    try:
        x = float(raw)
    except OverflowError:
        # an int beyond the float range is finite: capped at the remaining time (0 when negative)
        return g(remaining_ticks) if raw > 0 and remaining_ticks is not None else 0.0
    except (TypeError, ValueError):
        x = 0.0
    if not math.isfinite(x) or x < 0:
        x = 0.0
    if remaining_ticks is not None:
        x = min(x, g(remaining_ticks))
    return x


def failed(case: dict, a: Att) -> bool:
    if a.kind in ("exc", "copen"):
        return True
    return a.kind == "res" and case["cfg"].get("result_classifier", True)


def succeeded(case: dict, a: Att) -> bool:
    return a.kind == "ok" or (a.kind == "res" and not case["cfg"].get("result_classifier", True))


# ----------------------------------------------------------------------------
# C01 — attempt caps
# ----------------------------------------------------------------------------


def c01(case: dict, cv: CallView, out: list) -> dict:
    cfg = case["cfg"]
    info = {"failures": 0, "cap_reason": False}
    if len(cv.atts) > cfg.get("max_attempts", 3):
        out.append(("C01:max_attempts", f"{len(cv.atts)} invocations with max_attempts={cfg.get('max_attempts')}"))
    # the caps in force when each retry is granted (the caller may rebind them while the call is in flight)
    per_class = dict(cfg.get("per_class") or {})
    mu = cfg.get("max_unknown")
    seen: dict = {}
    retry_events: dict = {}
    for i, a in enumerate(cv.atts):
        last = i == len(cv.atts) - 1
        if failed(case, a):
            info["failures"] += 1
            k = a.klass
            seen[k] = seen.get(k, 0) + 1
            granted = not last
            for _, e in a.metrics("retry"):
                kk = e[4].get("class")
                retry_events[kk] = retry_events.get(kk, 0) + 1
                granted = True
            if granted:
                if not last and k in NONRETRY:
                    out.append(("C01:nonretryable-retried", f"attempt {a.n} failed with {k} and attempt {a.n + 1} was still made"))
                L = per_class.get(k)
                if L is not None and seen[k] > L:
                    out.append(("C01:per_class_cap", f"retry #{seen[k]} granted after a {k} failure (attempt {a.n}), per_class_max_attempts[{k}]={L} in force"))
                if k == "UNKNOWN" and mu is not None and seen[k] > mu:
                    out.append(("C01:unknown_cap", f"retry #{seen[k]} granted after an UNKNOWN failure (attempt {a.n}), max_unknown_attempts={mu} in force"))
        for e in a.ev:
            if e[0] == "reconfigure":
                if "per_class" in e[1]:
                    per_class = dict(e[1]["per_class"])
                if "max_unknown" in e[1]:
                    mu = e[1]["max_unknown"]
    r = reported_reason(cv)
    info["cap_reason"] = r in ("MAX_ATTEMPTS_GLOBAL", "MAX_ATTEMPTS_PER_CLASS", "MAX_UNKNOWN_ATTEMPTS", "NON_RETRYABLE_CLASS")
    info["reason"] = r
    return info


# ----------------------------------------------------------------------------
# C02 — deadline envelope
# ----------------------------------------------------------------------------


def c02(case: dict, cv: CallView, out: list, tol_s: float = 0.0) -> dict:
    """Deadline envelope.  On-grid cases are compared exactly (tol_s = 0)."""
    cfg = case["cfg"]
    info = {"near": False, "clamped": False, "reason": reported_reason(cv)}
    if cfg.get("deadline_s") is not None:
        D = cfg["deadline_s"]
    else:
        D = g(deadline_ticks(cfg))
    b_s = g(cv.begin)
    total_sleep = 0.0
    dead_failure = None  # attempt number of a failure observed at/after the deadline
    for a in cv.atts:
        t_op = a.t_op_s
        if a.n > 1 and t_op > D + tol_s:
            out.append(("C02:attempt-after-deadline", f"attempt {a.n} started at {t_op}s with deadline_s={D}"))
        if dead_failure is not None:
            out.append(("C02:retried-after-deadline-failure", f"attempt {dead_failure} failed at/after the deadline but attempt {a.n} was made"))
            dead_failure = None
        if abs(t_op - D) <= 1 / 64 or (a.t_end_s is not None and abs(a.t_end_s - D) <= 1 / 64):
            info["near"] = True
        t_fail = a.t_end_s
        late = failed(case, a) and t_fail is not None and t_fail >= D + tol_s
        for i, e in enumerate(a.ev):
            if e[0] == "reconfigure" and "deadline" in e[1]:
                D = g(e[1]["deadline"])  # the caller shortened / extended the deadline while the call was backing off
                info["near"] = True
                total_sleep = float("-inf")  # the total-sleep clause is stated for a fixed deadline
            elif e[0] == "sleep":
                s = e[2]
                t_rel = e[4] - b_s
                remaining = D - t_rel
                try:
                    s = float(s)  # Decimal / Fraction delays are numbers too
                except (TypeError, ValueError):
                    s = float("nan")
                if math.isnan(s) or s < 0 or s > remaining + tol_s:
                    out.append(("C02:sleep-exceeds-remaining", f"sleep of {s!r}s requested at {t_rel}s with deadline_s={D} (remaining {remaining})"))
                else:
                    total_sleep += s
                if late:
                    out.append(("C02:sleep-after-deadline-failure", f"attempt {a.n} failed at {t_fail}s >= deadline {D}s and a sleep was requested"))
                for ee in a.ev[:i]:
                    if ee[0] == "strat" and isinstance(ee[8], (int, float)) and ee[8] == ee[8] and ee[8] > remaining:
                        info["clamped"] = True
            elif e[0] == "metric" and e[1] == "retry" and late:
                out.append(("C02:retry-after-deadline-failure", f"attempt {a.n} failed at {t_fail}s >= deadline {D}s and a retry was granted"))
            elif e[0] == "sleep_end":
                if abs(e[2] - b_s - D) <= 1 / 64:
                    info["near"] = True
        if late:
            dead_failure = a.n
    # "so the total sleep it requests never exceeds deadline_s" follows from the per-sleep bound only when
    # every sleeper really sleeps at least what was requested (an early-returning sleeper makes no time pass).
    early = any(isinstance(o, dict) and o.get("skip") for o in (cv.call.get("overshoot") or []))
    if not early and total_sleep > D + tol_s * max(1, len(cv.atts)):
        out.append(("C02:total-sleep", f"total requested sleep {total_sleep}s exceeds deadline_s={D}"))
    return info


# ----------------------------------------------------------------------------
# C03 — retry exactly when permitted (reference-model walk)
# ----------------------------------------------------------------------------


def c03(case: dict, cv: CallView, out: list, budget: BudgetModel) -> dict:
    cfg = case["cfg"]
    call = cv.call
    counts: dict = {}
    info = {"failures": 0, "H_sizes": [], "final_attempt_retryable": False, "budget": False, "abort": False, "handler": False, "deferred": False}
    end = ending(cv)
    reason = reported_reason(cv)
    D = deadline_ticks(cfg)
    hj = 0
    expect_done = None  # (why) once the model says the run must have ended
    for i, a in enumerate(cv.atts):
        last = i == len(cv.atts) - 1
        if expect_done is not None:
            out.append((f"C03:attempt-after-{expect_done}", f"attempt {a.n} made although the run had to end ({expect_done})"))
            return info
        retries = a.metrics("retry")
        grants = [e for _, e in a.of("budget") if e[1]]
        refusals = [e for _, e in a.of("budget") if not e[1]]
        handlers = a.of("handler")
        sleeps = a.of("sleep")
        if succeeded(case, a):
            if not last or retries or grants or sleeps or handlers:
                out.append(("C03:work-after-success", f"attempt {a.n} succeeded but the run went on (retry/sleep/attempt)"))
            if end["kind"] != "value":
                out.append(("C03:success-not-delivered", f"attempt {a.n} succeeded but the call ended as {end['kind']}"))
            return info
        if not failed(case, a):
            return info  # abort / cancellation raised by the operation: C13's business
        info["failures"] += 1
        k = a.klass
        t_fail = a.t_end
        abs_t = cv.begin + t_fail
        tp = a.first_true_poll()
        decided = [j for j, e in enumerate(a.ev) if e[0] in ("strat", "budget") or (e[0] == "metric" and e[1] not in BREAKER_EVENTS)]
        if tp is not None and (not decided or tp < decided[0]):
            # abort requested before the library decided anything about this failure
            info["abort"] = True
            if retries or grants or sleeps or handlers or not last:
                out.append(("C03:work-after-abort", f"abort requested after attempt {a.n} but retry/sleep/attempt followed"))
            if end["kind"] != "abort":
                out.append(("C03:abort-not-delivered", f"abort requested after attempt {a.n} but the call ended as {end['kind']}"))
            return info
        counts[k] = counts.get(k, 0) + 1
        H = stop_conditions(cfg, k, a.n, t_fail, counts)
        # tokens taken by other users of the shared budget while this failure was being handled (they come
        # before the library's own consume(): the harness takes them inside the strategy callback)
        for _, x in a.of("budget_ext"):
            if x[1]:
                budget.grant(x[2])
                info["stolen"] = True
        B = budget.would_refuse(abs_t)
        info["H_sizes"].append(len(H))
        if "MAX_ATTEMPTS_GLOBAL" in H and not (H - {"MAX_ATTEMPTS_GLOBAL"}):
            info["final_attempt_retryable"] = True
        if H:
            what = "+".join(sorted(H))
            tagH = "last-attempt" if H == {"MAX_ATTEMPTS_GLOBAL"} else "stop-condition"
            if retries:
                out.append((f"C03:retry-event-at-{tagH}", f"`retry` reported after attempt {a.n} although {what} holds"))
            if grants:
                out.append((f"C03:budget-spent-at-{tagH}", f"budget token spent after attempt {a.n} although {what} holds"))
                for _g in grants:
                    budget.grant(abs_t)  # keep the model in step with what was really spent
            if sleeps:
                out.append((f"C03:sleep-at-{tagH}", f"sleep after attempt {a.n} although {what} holds"))
            if handlers:
                out.append((f"C03:handler-at-{tagH}", f"sleep handler consulted after attempt {a.n} although {what} holds"))
            if not last:
                out.append((f"C03:attempt-at-{tagH}", f"attempt {a.n + 1} made although {what} held after attempt {a.n}"))
            elif end["kind"] == "fail":
                ok = set(H)
                if B and refusals:
                    ok.add("BUDGET_EXHAUSTED")
                if reason is not None and reason not in ok:
                    out.append(("C03:wrong-stop-reason", f"stop reason {reason} reported after attempt {a.n}, but the conditions that hold are {sorted(ok)}"))
            elif end["kind"] not in ("abort",) or tp is None:
                out.append(("C03:stop-not-delivered", f"{what} holds after attempt {a.n} but the call ended as {end['kind']}"))
            return info
        if B:
            info["budget"] = True
            if retries or grants or sleeps or handlers or not last:
                out.append(("C03:retry-without-budget", f"budget window is full after attempt {a.n} but retry/sleep/attempt followed"))
            elif end["kind"] == "fail" and reason not in (None, "BUDGET_EXHAUSTED"):
                out.append(("C03:wrong-stop-reason", f"stop reason {reason} reported after attempt {a.n}; only the budget refuses"))
            elif end["kind"] != "fail" and tp is None:
                out.append(("C03:stop-not-delivered", f"budget refuses after attempt {a.n} but the call ended as {end['kind']}"))
            return info
        # a retry is permitted: it must be granted (exactly one token, exactly one `retry`)
        if budget.spec is not None:
            if len(grants) != 1:
                if tp is None or grants:
                    out.append(("C03:budget-grants", f"{len(grants)} budget tokens spent for the retry after attempt {a.n}"))
            if grants:
                budget.grant(abs_t)
                info["budget"] = True
        has_sink = any(e[0] == "metric" for e in cv.events) or True
        if len(retries) != 1 and has_sink and _has_metric_hook(case):
            if last and end["kind"] == "fail":
                out.append(("C03:premature-give-up", f"no stop condition holds after attempt {a.n} ({k}) but the run stopped with {reason}"))
                return info
            if tp is None or len(retries) > 1:
                out.append(("C03:retry-event-count", f"{len(retries)} `retry` events for the retry after attempt {a.n}"))
        if last and end["kind"] == "fail" and not retries and not _has_metric_hook(case):
            # cannot see `retry`; decide from sleeps/handlers below
            pass
        # post-decision abort
        tp2 = tp
        if tp2 is not None:
            first_h = handlers[0][0] if handlers else None
            first_s = sleeps[0][0] if sleeps else None
            before_sleep_phase = (first_h is None or tp2 < first_h) and (first_s is None or tp2 < first_s)
            if before_sleep_phase:
                info["abort"] = True
                if sleeps or handlers or not last:
                    out.append(("C03:work-after-abort", f"abort requested after the retry decision of attempt {a.n} but handler/sleep/attempt followed"))
                if end["kind"] != "abort":
                    out.append(("C03:abort-not-delivered", f"abort requested after attempt {a.n} but the call ended as {end['kind']}"))
                return info
        # sleep handler decision
        decision = "sleep"
        if call.get("handler") is not None:
            info["handler"] = True
            hs = call["handler"]
            decision = hs[hj] if hj < len(hs) else "sleep"
            hj += 1
        if decision == "invalid":
            return info
        if decision.startswith("str:"):
            # a plain string instead of the SleepDecision member: refusing it is fine (ValueError, nothing further),
            # and so is honouring it like the member
            if end["kind"] == "other" and cv.final.get("type") == "ValueError" and not sleeps and last:
                return info
            decision = decision[4:]
        if decision == "defer":
            info["deferred"] = True
            if sleeps or not last:
                out.append(("C03:work-after-defer", f"handler deferred after attempt {a.n} but sleep/attempt followed"))
            elif end["kind"] != "fail" or reason != "SCHEDULED":
                out.append(("C03:defer-not-delivered", f"handler deferred after attempt {a.n} but the call ended as {end['kind']}/{reason}"))
            return info
        if decision == "abort":
            info["abort"] = True
            if sleeps or not last:
                out.append(("C03:work-after-abort", f"handler aborted after attempt {a.n} but sleep/attempt followed"))
            elif end["kind"] != "abort":
                out.append(("C03:abort-not-delivered", f"handler aborted after attempt {a.n} but the call ended as {end['kind']}"))
            return info
        if len(sleeps) != 1:
            if last and end["kind"] == "fail" and not sleeps:
                out.append(("C03:premature-give-up", f"no stop condition holds after attempt {a.n} ({k}) but the run stopped with {reason} without sleeping"))
            else:
                out.append(("C03:sleep-count", f"{len(sleeps)} sleeps for the granted retry after attempt {a.n}"))
            return info
        ends = [e for e in a.ev if e[0] == "sleep_end"]
        t_wake = ends[0][1] - cv.begin if ends else None
        if t_wake is not None and t_wake > D:
            if not last:
                out.append(("C03:attempt-after-deadline", f"attempt {a.n + 1} made after waking at {g(t_wake)}s > deadline {g(D)}s"))
            elif end["kind"] == "fail" and reason not in (None, "DEADLINE_EXCEEDED"):
                out.append(("C03:wrong-stop-reason", f"woke after the deadline following attempt {a.n} but stop reason is {reason}"))
            expect_done = "deadline"
            continue
        # the next attempt must start unless the pre-attempt poll aborts
        later_true = any(e[0] == "poll" and e[2] for e in a.ev[sleeps[0][0] :])
        at = call.get("abort_at")
        if at is not None and t_wake is not None and t_wake >= at and not later_true and not last:
            # the abort predicate is a function of time: it has been answering True since before the sleep
            # returned, so "no abort is requested" does not hold when the next attempt starts
            info["abort"] = True
            out.append(("C03:attempt-while-abort-requested", f"attempt {a.n + 1} made although abort_if has been answering True since {g(at)}s (woke at {g(t_wake)}s)"))
            return info
        if later_true:
            info["abort"] = True
            if not last:
                out.append(("C03:work-after-abort", f"abort requested during the back-off after attempt {a.n} but attempt {a.n + 1} was made"))
            elif end["kind"] != "abort":
                out.append(("C03:abort-not-delivered", f"abort requested after attempt {a.n} but the call ended as {end['kind']}"))
            return info
        if last:
            out.append(("C03:premature-give-up", f"retry granted and slept after attempt {a.n}, nothing forbids attempt {a.n + 1}, but the run ended as {end['kind']}/{reason}"))
            return info
    return info


def _has_metric_hook(case: dict) -> bool:
    return (case.get("placement") or {}).get("metric", True)


# ----------------------------------------------------------------------------
# C04 / C11 — what is delivered describes the final attempt
# ----------------------------------------------------------------------------


def last_classified_failure(case: dict, cv: CallView):
    """(attempt, cause) of the last failure the retry loop recorded (None if none).

    abort_if is polled right after a failed attempt, before the loop records that failure, so a run
    aborted by that poll describes the previous recorded failure (see DESIGN.md, C11 interpretation).
    """
    c = recorded_failure_candidates(case, cv)
    return c[0] if c else None


def recorded_failure_candidates(case: dict, cv: CallView) -> list:
    """Acceptable descriptions of 'the final failure': [(Att, cause) | None, ...] (first = preferred)."""
    recorded = None
    for a in cv.atts:
        if not failed(case, a):
            continue
        cause = "exception" if a.kind in ("exc", "copen") else "result"
        decided = [j for j, e in enumerate(a.ev) if e[0] in ("strat", "budget", "classify") or (e[0] == "metric" and e[1] not in BREAKER_EVENTS and e[1] != "aborted")]
        tp = a.first_true_poll()
        if tp is not None and (not decided or tp < decided[0]):
            # aborted before the loop processed this failure: either description is acceptable
            return [recorded, (a, cause)] if cause == "result" else [recorded]
        recorded = (a, cause)
    return [recorded]


def deferred_delay(cv: CallView):
    for a in cv.atts:
        for _, e in a.of("handler"):
            if e[4] == "defer":
                return e[3]
    return None


def acceptable_reasons(case: dict, cv: CallView, budget_spec: dict | None) -> set | None:
    """Set-based expectation for the stop reason after the last attempt (None = cannot tell)."""
    if not cv.atts:
        return None
    a = cv.atts[-1]
    if not failed(case, a):
        return None
    counts: dict = {}
    for b in cv.atts:
        if failed(case, b):
            counts[b.klass] = counts.get(b.klass, 0) + 1
    H = stop_conditions(case["cfg"], a.klass, a.n, a.t_end, counts)
    if any(not e[1] for _, e in a.of("budget")):
        H.add("BUDGET_EXHAUSTED")
    if any(e[4] == "defer" for _, e in a.of("handler")):
        H.add("SCHEDULED")
    D = deadline_ticks(case["cfg"])
    ends = [e for e in a.ev if e[0] == "sleep_end"]
    if ends and ends[-1][1] - cv.begin > D:
        H.add("DEADLINE_EXCEEDED")
    return H


def c04(case: dict, cv: CallView, out: list) -> dict:
    info = {"mixed": False}
    end = ending(cv)
    if end["mode"] != "call" if "mode" in end else False:
        return info
    if not cv.atts:
        return info
    a = cv.atts[-1]
    causes = {("e" if b.kind in ("exc", "copen") else "r") for b in cv.atts if failed(case, b)}
    info["mixed"] = len(causes) > 1 or sum(1 for b in cv.atts if failed(case, b)) >= 2
    f = cv.final
    if succeeded(case, a):
        if f["via"] != "return" or not _is(cv, f["value_idx"], a.n - 1):
            out.append(("C04:wrong-return-value", f"attempt {a.n} succeeded but call() delivered {f}"))
        return info
    if not failed(case, a):
        return info
    if end["kind"] in ("abort", "propagate", "circuit_open"):
        return info
    if end["kind"] == "other" and any(e[0] == "fault" for e in cv.events):
        return info  # an injected callback fault escaped: not this property's subject
    deferred = deferred_delay(cv)
    cause = "exception" if a.kind in ("exc", "copen") else "result"
    if cause == "exception" and deferred is None:
        if f["via"] != "raise" or not _is(cv, f.get("idx"), a.n - 1):
            out.append(("C04:wrong-exception", f"retries stopped on the exception of attempt {a.n} but call() delivered {f}"))
            return info
        x = cv.objs[a.n - 1]
        tb = x.__traceback__
        names = []
        while tb is not None:
            names.append(tb.tb_frame.f_code.co_name)
            tb = tb.tb_next
        if not names or names[-1] != "op_body":
            out.append(("C04:traceback", f"traceback of the re-raised exception does not end in the operation: {names[-4:]}"))
        if x.__cause__ is not getattr(x, "_orig_cause", None):
            out.append(("C04:cause-substituted", f"__cause__ of the re-raised exception was changed to {x.__cause__!r}"))
        return info
    # RetryExhaustedError expected
    if f["via"] != "raise" or f["type"] != "RetryExhaustedError" or f.get("idx") is not None:
        out.append(("C04:expected-RetryExhaustedError", f"retries stopped on a {cause} failure{' (deferred)' if deferred is not None else ''} but call() delivered {f}"))
        return info
    if f["attempts"] != len(cv.atts):
        out.append(("C04:attempts", f"RetryExhaustedError.attempts={f['attempts']} but the operation ran {len(cv.atts)} times"))
    if f["last_class"] != a.klass:
        out.append(("C04:last_class", f"RetryExhaustedError.last_class={f['last_class']} but the final failure was {a.klass}"))
    if cause == "result":
        if not _is(cv, f["last_res_idx"], a.n - 1) or f["last_exc_idx"] is not None:
            out.append(("C04:last_result", f"RetryExhaustedError does not carry the final result of attempt {a.n}: {f}"))
    else:
        if not _is(cv, f["last_exc_idx"], a.n - 1) or f["last_res_idx"] is not None:
            out.append(("C04:last_exception", f"RetryExhaustedError does not carry the final exception of attempt {a.n}: {f}"))
    if deferred is not None:
        if f["stop_reason"] != "SCHEDULED" or f["next_sleep_s"] != deferred:
            out.append(("C04:deferred-fields", f"deferred run: stop_reason={f['stop_reason']} next_sleep_s={f['next_sleep_s']!r}, expected SCHEDULED/{deferred!r}"))
    else:
        if f["next_sleep_s"] is not None:
            out.append(("C04:next_sleep_leak", f"next_sleep_s={f['next_sleep_s']!r} on a run that was not deferred"))
        ok = acceptable_reasons(case, cv, case["cfg"].get("budget"))
        if ok is not None and f["stop_reason"] not in ok:
            out.append(("C04:stop_reason", f"RetryExhaustedError.stop_reason={f['stop_reason']} but the conditions that hold are {sorted(ok)}"))
    return info


def c11(case: dict, cv: CallView, out: list, has_retry: bool = True) -> dict:
    info = {"interesting": False}
    f = cv.final
    if f["via"] == "raise":
        t = f["type"]
        last = cv.atts[-1] if cv.atts else None
        allowed = False
        if t in ("KeyboardInterrupt", "SystemExit", "CancelledError", "GeneratorExit"):
            allowed = True
        elif t == "RetryExhaustedError" and f.get("idx") is not None:
            allowed = True  # raised by the operation itself (nested policy)
        elif t == "ValueError" and any(e[0] == "handler" and e[4] == "invalid" for e in cv.events):
            allowed = True  # the caller's own sleep handler misbehaved
        elif any(e[0] == "fault" for e in cv.events):
            allowed = True
        if not allowed:
            out.append(("C11:execute-raised", f"execute() raised {t} (final attempt kind {last.kind if last else None})"))
        return info
    if f["via"] != "outcome":
        out.append(("C11:not-an-outcome", f"execute() returned {f}"))
        return info
    nops = len(cv.atts)
    if f["attempts"] != nops:
        out.append(("C11:attempts", f"outcome.attempts={f['attempts']} but the operation ran {nops} times"))
    last = cv.atts[-1] if cv.atts else None
    if last is not None and succeeded(case, last):
        if not f["ok"] or not _is(cv, f["value_idx"], last.n - 1):
            out.append(("C11:ok-value", f"final attempt {last.n} succeeded but outcome is ok={f['ok']} value_idx={f['value_idx']}"))
        if f["stop_reason"] is not None or f["last_class"] is not None or f["last_exc_idx"] is not None or f["last_res_idx"] is not None or f["cause"] is not None or f["next_sleep_s"] is not None:
            out.append(("C11:ok-extra-fields", f"ok outcome carries failure fields: {f}"))
        return info
    if f["ok"]:
        out.append(("C11:ok-without-success", f"outcome ok=True but the final attempt did not succeed ({last.kind if last else 'no attempt'})"))
        return info
    if f["value_idx"] is not None:
        out.append(("C11:value-on-failure", "not-ok outcome carries a value"))
    if not has_retry:
        return info
    if f["last_exc_type"] == "CircuitOpenError" and nops == 0:
        return info
    if f["stop_reason"] is None:
        out.append(("C11:no-stop-reason", f"not-ok outcome without stop_reason: {f}"))
    deferred = deferred_delay(cv)
    if (f["next_sleep_s"] is not None) != (f["stop_reason"] == "SCHEDULED") or (deferred is not None) != (f["stop_reason"] == "SCHEDULED"):
        out.append(("C11:next_sleep_s", f"next_sleep_s={f['next_sleep_s']!r} with stop_reason={f['stop_reason']} (deferred delay {deferred!r})"))
    elif deferred is not None and f["next_sleep_s"] != deferred:
        out.append(("C11:next_sleep_s", f"next_sleep_s={f['next_sleep_s']!r} but the deferred delay was {deferred!r}"))
    def mismatches(cnd) -> list:
        bad: list = []
        if cnd is None:
            if f["last_class"] is not None or f["last_exc_idx"] is not None or f["last_res_idx"] is not None or f["cause"] is not None:
                bad.append(("C11:fields-without-failure", f"no failure was recorded but outcome carries {f}"))
            return bad
        a, cause = cnd
        if f["last_class"] != a.klass or f["cause"] != cause:
            bad.append(("C11:last_class/cause", f"outcome last_class={f['last_class']} cause={f['cause']} but the final failure (attempt {a.n}) was {a.klass}/{cause}"))
        if cause == "exception" and (not _is(cv, f["last_exc_idx"], a.n - 1) or f["last_res_idx"] is not None):
            bad.append(("C11:last_exception", f"outcome does not carry exactly the exception of attempt {a.n}: exc_idx={f['last_exc_idx']} res_idx={f['last_res_idx']}"))
        if cause == "result" and (not _is(cv, f["last_res_idx"], a.n - 1) or f["last_exc_idx"] is not None):
            bad.append(("C11:last_result", f"outcome does not carry exactly the result of attempt {a.n}: exc_idx={f['last_exc_idx']} res_idx={f['last_res_idx']}"))
        return bad

    cands = recorded_failure_candidates(case, cv)
    best = min((mismatches(c) for c in cands), key=len)
    out.extend(best)
    info["interesting"] = sum(1 for b in cv.atts if failed(case, b)) >= 2 or f["stop_reason"] in ("SCHEDULED", "ABORTED")
    if f["stop_reason"] not in (None, "ABORTED", "SCHEDULED") and last is not None and failed(case, last):
        ok = acceptable_reasons(case, cv, case["cfg"].get("budget"))
        if ok is not None and f["stop_reason"] not in ok:
            out.append(("C11:stop_reason", f"outcome.stop_reason={f['stop_reason']} but the conditions that hold are {sorted(ok)}"))
    if f["stop_reason"] == "ABORTED":
        aborted = any(e[0] == "poll" and e[2] for e in cv.events) or any(a.kind == "abort" for a in cv.atts) or any(e[0] == "handler" and e[4] == "abort" for e in cv.events)
        if not aborted:
            out.append(("C11:aborted-without-abort", "outcome says ABORTED but nothing requested an abort"))
    return info


# ----------------------------------------------------------------------------
# C05 — back-off delay data flow
# ----------------------------------------------------------------------------


def c05(case: dict, cv: CallView, out: list) -> dict:
    cfg = case["cfg"]
    info = {"retries": 0, "classes": set(), "sanitised": False}
    prev = None
    D = deadline_ticks(cfg)
    for i, a in enumerate(cv.atts):
        if not failed(case, a):
            continue
        strats = a.of("strat")
        retries = a.metrics("retry")
        if len(strats) > 1:
            out.append(("C05:strategy-called-twice", f"strategy called {len(strats)} times for attempt {a.n}"))
        if retries and len(strats) != 1:
            out.append(("C05:retry-without-strategy", f"retry granted after attempt {a.n} with {len(strats)} strategy calls"))
        if not strats:
            continue
        s = strats[0][1]
        key, att, kl, ra, prev_seen, rem, cause, raw, same_obj, tick = s[1:11]
        want_key = strategy_key(cfg, a.klass)
        if key != want_key:
            out.append(("C05:wrong-strategy", f"attempt {a.n} failed with {a.klass}; strategy '{key}' consulted, expected '{want_key}'"))
        style = (cfg.get("strategies") or {}).get(key, cfg.get("default") or {}).get("style", "ctx") if key != "default" else (cfg.get("default") or {}).get("style", "ctx")
        if att != a.n:
            out.append(("C05:ctx-attempt", f"strategy saw attempt={att} for attempt {a.n}"))
        if kl != a.klass:
            out.append(("C05:ctx-class", f"strategy saw class {kl} for a {a.klass} failure"))
        if prev_seen != prev:
            out.append(("C05:ctx-prev-sleep", f"strategy saw prev_sleep_s={prev_seen!r}, previously applied delay was {prev!r}"))
        rem_ticks = D - a.t_end
        if style not in ("legacy", "legacy_defaults"):
            want_cause = "exception" if a.kind in ("exc", "copen") else "result"
            if cause != want_cause:
                out.append(("C05:ctx-cause", f"strategy saw cause={cause!r} for a {want_cause} failure"))
            want_ra = a.entry.get("ra")
            if not _same_float(ra, want_ra):
                out.append(("C05:ctx-retry-after", f"strategy saw retry_after_s={ra!r}, classifier supplied {want_ra!r}"))
            if (a.entry.get("ra") is not None or a.entry.get("as_obj")) and same_obj is False:
                out.append(("C05:ctx-classification-identity", "strategy did not receive the classifier's Classification object"))
            if rem != g(rem_ticks):
                out.append(("C05:ctx-remaining", f"strategy saw remaining_s={rem!r}, deadline - elapsed = {g(rem_ticks)!r}"))
        applied = applied_delay(raw, rem_ticks)
        if not (isinstance(raw, float) and math.isfinite(raw) and raw >= 0 and applied == raw):
            info["sanitised"] = True
        if not retries:
            continue
        info["retries"] += 1
        info["classes"].add(a.klass)
        for _, e in retries:
            if not _same_float(e[3], applied):
                out.append(("C05:retry-event-delay", f"`retry` event reports sleep_s={e[3]!r}; strategy returned {raw!r}, applied delay should be {applied!r}"))
        for _, e in a.of("handler"):
            if not _same_float(e[3], applied):
                out.append(("C05:handler-delay", f"sleep handler got {e[3]!r}, applied delay should be {applied!r}"))
        for _, e in a.of("before"):
            if not _same_float(e[3], applied):
                out.append(("C05:before-sleep-delay", f"before_sleep got {e[3]!r}, applied delay should be {applied!r}"))
        for _, e in a.of("sleep"):
            if not _same_float(e[2], applied):
                out.append(("C05:sleeper-delay", f"sleeper got {e[2]!r}; strategy returned {raw!r}, applied delay should be {applied!r}"))
        hs = a.of("handler")
        if (not hs or (len(hs) == 1 and hs[0][1][4] == "sleep")) and a.first_true_poll() is None and not any(e[0] == "fault" for e in a.ev):
            # the retry goes ahead: the delay must reach the sleeper the caller configured (zero delays included)
            sl = a.of("sleep")
            want_s = expected_where(case.get("placement") or {}, "sleeper", "")
            if len(sl) != 1 or sl[0][1][1] != want_s:
                out.append(("C05:sleeper-not-given-the-delay", f"granted retry after attempt {a.n} with delay {applied!r}: sleeper calls {[(x[1][1], x[1][2]) for x in sl]}, expected one call of the {want_s}-level sleeper"))
        for _, e in a.of("log"):
            if e[1] == "retry" and not _same_float(e[2].get("sleep_s"), applied):
                out.append(("C05:retry-log-delay", f"`retry` log reports sleep_s={e[2].get('sleep_s')!r}, applied delay should be {applied!r}"))
        prev = applied
    f = cv.final
    d = deferred_delay(cv)
    ns = f.get("next_sleep_s") if f["via"] in ("outcome", "raise") else None
    if d is not None and not _same_float(ns, d) and (ns is not None or ("next_sleep_s" in f and reported_reason(cv) == "SCHEDULED")):
        out.append(("C05:next_sleep_s", f"next_sleep_s={ns!r} but the deferred delay was {d!r}"))
    tl = f.get("timeline") if f["via"] == "outcome" else None
    if tl is not None:
        tl_retry = [ev.sleep_s for ev in tl.events if ev.event == "retry"]
        m_retry = [e[3] for a in cv.atts for _, e in a.metrics("retry")]
        if _has_metric_hook(case) and len(tl_retry) == len(m_retry) and any(not _same_float(x, y) for x, y in zip(tl_retry, m_retry)):
            out.append(("C05:timeline-delay", f"timeline retry delays {tl_retry} differ from metric events {m_retry}"))
    return info


def _is(cv, got_idx, want_idx) -> bool:
    """Object identity by index (several attempts may produce the very same object)."""
    if got_idx is None:
        return False
    return got_idx == want_idx or (got_idx in cv.objs and want_idx in cv.objs and cv.objs[got_idx] is cv.objs[want_idx])


def _same_float(a: Any, b: Any) -> bool:
    if a is None or b is None:
        return a is None and b is None
    try:
        if math.isnan(a) and math.isnan(b):
            return True
    except TypeError:
        return a == b
    return a == b


# ----------------------------------------------------------------------------
# C13 — abort and cancellation
# ----------------------------------------------------------------------------


def c13(case: dict, cv: CallView, out: list) -> dict:
    info = {"abort_after_action": False, "cancel_late": False}
    call = cv.call
    uses_poll = call.get("abort") is not None or call.get("poll")
    evs = cv.events
    seen_true = False
    polled_since = False
    actions = 0
    for e in evs:
        if e[0] == "poll":
            polled_since = True
            if e[2] and not seen_true:
                seen_true = True
                info["abort_after_action"] = actions > 0
        elif e[0] in ("op", "sleep"):
            what = "attempt" if e[0] == "op" else "sleep"
            if seen_true:
                out.append((f"C13:{what}-after-abort", f"{what} started after abort_if had answered True"))
            elif uses_poll and not polled_since:
                out.append((f"C13:{what}-without-poll", f"{what} started without consulting abort_if since the previous attempt/sleep"))
            polled_since = False
            actions += 1
        elif e[0] == "metric" and e[1] == "retry":
            # the back-off has been decided and announced: the consultation "before every backoff sleep" comes after this
            # point (a shutdown flag raised by the hook that sees the retry event must stop the sleep that follows)
            polled_since = False
        elif e[0] in ("handler", "before") and seen_true:
            out.append(("C13:handler-after-abort", f"{e[0]} invoked after abort_if had answered True"))
    end = ending(cv)
    if seen_true and end["kind"] != "abort":
        out.append(("C13:abort-not-delivered", f"abort_if answered True but the call ended as {end['kind']} {cv.final.get('type') or cv.final.get('stop_reason')}"))
    # AbortRetryError / cancellation raised by the operation
    for i, a in enumerate(cv.atts):
        last = i == len(cv.atts) - 1
        if a.kind == "abort":
            if not last or a.of("sleep") or a.of("handler") or a.metrics("retry"):
                out.append(("C13:work-after-AbortRetryError", f"operation raised AbortRetryError at attempt {a.n} but work continued"))
            if end["kind"] != "abort":
                out.append(("C13:AbortRetryError-not-delivered", f"operation raised AbortRetryError but the call ended as {end['kind']}"))
            info["abort_after_action"] = info["abort_after_action"] or a.n > 1
        elif a.kind in CANCEL_KINDS:
            tname = CANCEL_KINDS[a.kind]
            info["cancel_late"] = info["cancel_late"] or a.n > 1
            if not last or a.of("sleep") or a.metrics("retry") or a.of("strat"):
                out.append((f"C13:{tname}-retried", f"operation raised {tname} at attempt {a.n} but the run continued"))
            if any(e[0] == "classify" and e[3] == tname for e in a.ev):
                out.append((f"C13:{tname}-classified", f"{tname} was handed to the classifier"))
            f = cv.final
            same = f["via"] == "raise" and _is(cv, f.get("idx"), a.n - 1)
            if not same and case["cfg"].get("attempt_timeout") is not None and f["via"] == "raise" and f.get("type") == tname:
                same = True  # asyncio.wait_for runs the attempt in an inner task; the loop re-creates CancelledError
            if not same:
                out.append((f"C13:{tname}-not-propagated", f"operation raised {tname} at attempt {a.n} but the call ended with {f}"))
        elif a.kind == "rexh":
            f = cv.final
            if f["via"] != "raise" or not _is(cv, f.get("idx"), a.n - 1) or not last:
                out.append(("C13:nested-RetryExhaustedError", f"operation raised RetryExhaustedError at attempt {a.n} but the call ended with {f}"))
    return info


# ----------------------------------------------------------------------------
# C14 — event stream
# ----------------------------------------------------------------------------


def c14(case: dict, cv: CallView, out: list, budget_spec: dict | None = None) -> dict:
    info = {"retries": 0, "terminal": None}
    end = ending(cv)
    if end["kind"] in ("propagate", "other", "circuit_open"):
        return info
    if any(e[0] == "handler" and e[4] == "invalid" for e in cv.events):
        return info
    metrics = [e for e in cv.events if e[0] == "metric" and e[1] not in BREAKER_EVENTS]
    logs = [e for e in cv.events if e[0] == "log" and e[1] not in BREAKER_EVENTS]
    op_name = case["cfg"].get("operation", "op")
    if not op_name and str(case.get("entry", "")).startswith(("decorator", "adecorator")):
        op_name = "sfn" if case["entry"].startswith("decorator") else "fn"  # @retry names the operation after the function
    op_name = op_name or None  # an empty name means no operation tag
    pl = case.get("placement") or {}
    has_m, has_l = pl.get("metric", True), pl.get("log", True)
    seq = metrics if has_m else [("metric", e[1], e[2].get("attempt"), e[2].get("sleep_s"), {k: v for k, v in e[2].items() if k not in ("attempt", "sleep_s", "retry_after_s")}) for e in logs]
    if not has_m and not has_l:
        seq = []
    # grammar: retry* terminal
    if has_m or has_l:
        if not seq:
            out.append(("C14:no-terminal-event", f"run ended as {end['kind']} without any event"))
            return info
        *retries, term = seq
        k = 0
        applied = []
        for a in cv.atts:
            for _, e in a.of("sleep"):
                applied.append(e[2])
        for e in retries:
            if e[1] != "retry":
                out.append(("C14:event-after-terminal", f"event sequence {[x[1] for x in seq]}: '{e[1]}' is followed by further events"))
                return info
            k += 1
            if e[2] != k:
                out.append(("C14:retry-attempt-number", f"{k}-th retry event has attempt={e[2]}"))
            if "stop_reason" in e[4]:
                out.append(("C14:retry-has-stop-reason", f"retry event carries stop_reason {e[4]}"))
        info["retries"] = len(retries)
        if term[1] == "retry":
            out.append(("C14:no-terminal-event", f"event sequence {[x[1] for x in seq]} ends with a retry event (run ended as {end['kind']})"))
            return info
        info["terminal"] = term[1]
        tags = term[4]
        if end["kind"] == "value":
            if term[1] != "success" or "stop_reason" in tags:
                out.append(("C14:terminal-mismatch", f"run succeeded but terminal event is {term[1]} {tags}"))
        else:
            delivered = end.get("reason") or ("ABORTED" if end["kind"] == "abort" else None)
            tag = tags.get("stop_reason")
            if term[1] == "success":
                out.append(("C14:terminal-mismatch", f"run ended as {end['kind']} but terminal event is success"))
            elif delivered is not None and tag != delivered:
                out.append(("C14:stop-reason-mismatch", f"terminal event stop_reason={tag} but {delivered} was delivered to the caller"))
            elif tag is None:
                out.append(("C14:terminal-without-reason", f"terminal event {term[1]} has no stop_reason tag"))
            elif TERMINAL_BY_REASON.get(tag) != term[1]:
                out.append(("C14:event-name", f"terminal event '{term[1]}' with stop_reason {tag}"))
            midflight = any(e[0] == "reconfigure" for e in cv.events)
            if delivered is None and tag is not None and cv.atts and failed(case, cv.atts[-1]) and not midflight:
                ok = acceptable_reasons(case, cv, budget_spec)
                if ok is not None and tag not in ok and tag != "ABORTED":
                    out.append(("C14:stop-reason-mismatch", f"terminal event stop_reason={tag} but the conditions that hold are {sorted(ok)}"))
            if tag == "ABORTED":
                extra = set(tags) - {"stop_reason", "operation"}
                if extra:
                    out.append(("C14:abort-tags", f"abort event carries extra tags {sorted(extra)}"))
            elif tag is not None and cv.atts:
                lcf = last_classified_failure(case, cv)
                if lcf is not None:
                    a, cause = lcf
                    if tags.get("class") != a.klass or tags.get("cause") != cause:
                        out.append(("C14:terminal-tags", f"terminal event tags {tags} do not describe the final failure {a.klass}/{cause}"))
                    want_err = type(cv.objs[a.n - 1]).__name__ if cause == "exception" else None
                    if tags.get("err") != want_err:
                        out.append(("C14:terminal-err-tag", f"terminal event err={tags.get('err')!r}, expected {want_err!r}"))
        if tags.get("operation") != op_name:
            out.append(("C14:operation-tag", f"terminal event operation tag {tags.get('operation')!r}"))
        # retry events describe their failure and the applied delay
        ri = 0
        for a in cv.atts:
            for _, e in a.metrics("retry") if has_m else []:
                cause = "exception" if a.kind in ("exc", "copen") else "result"
                if e[4].get("class") != a.klass or e[4].get("cause") != cause or e[4].get("operation") != op_name:
                    out.append(("C14:retry-tags", f"retry event tags {e[4]} for a {a.klass}/{cause} failure"))
                sl = a.of("sleep")
                if sl and not _same_float(sl[0][1][2], e[3]):
                    out.append(("C14:retry-delay", f"retry event sleep_s={e[3]!r} but the sleeper got {sl[0][1][2]!r}"))
                ri += 1
    # sink parity
    if has_m and has_l:
        if len(metrics) != len(logs):
            out.append(("C14:sink-skew", f"metric hook got {[e[1] for e in metrics]}, log hook got {[e[1] for e in logs]}"))
        else:
            for m, l in zip(metrics, logs):
                fields = dict(l[2])
                ra = fields.pop("retry_after_s", None)
                want = {"attempt": m[2], "sleep_s": m[3], **m[4]}
                if l[1] != m[1] or not _dict_same(fields, want):
                    out.append(("C14:sink-skew", f"metric {m[1:]} vs log {l[1:]}"))
                    break
                if ra is not None and m[1] != "retry":
                    out.append(("C14:retry_after-on-terminal", f"log event {l[1]} carries retry_after_s"))
    tl = cv.final.get("timeline") if cv.final["via"] == "outcome" else None
    if tl is not None and has_m:
        tev = [(ev.event, ev.attempt, ev.sleep_s, ev.error_class.name if ev.error_class else None, ev.stop_reason.value if ev.stop_reason else None, ev.cause) for ev in tl.events if ev.event not in BREAKER_EVENTS]
        mev = [(m[1], m[2], m[3], m[4].get("class"), m[4].get("stop_reason"), m[4].get("cause")) for m in metrics]
        if len(tev) != len(mev) or any(not all(_same_float(x, y) if isinstance(x, float) else x == y for x, y in zip(a, b)) for a, b in zip(tev, mev)):
            out.append(("C14:timeline-skew", f"timeline {tev} vs metric events {mev}"))
    elif tl is not None and not has_m and has_l:
        if len([ev for ev in tl.events if ev.event not in BREAKER_EVENTS]) != len(logs):
            out.append(("C14:timeline-skew", f"timeline has {len(tl.events)} events, log hook got {len(logs)}"))
    return info


def _dict_same(a: dict, b: dict) -> bool:
    if set(a) != set(b):
        return False
    return all(_same_float(a[k], b[k]) if isinstance(a[k], float) or isinstance(b[k], float) else a[k] == b[k] for k in a)


# ----------------------------------------------------------------------------
# C16 — sleep-handler protocol
# ----------------------------------------------------------------------------


def expected_where(pl: dict, what: str, entry_api: str) -> str:
    p = pl.get(what, "call")
    if p == "both":
        return "call"
    if p == "none":
        return "default" if what == "sleeper" else "none"
    return p


def c16(case: dict, cv: CallView, out: list) -> dict:
    info = {"consultations": 0, "conflict": False}
    call = cv.call
    pl = case.get("placement") or {}
    has_handler = call.get("handler") is not None or any(c.get("handler") is not None for c in (case.get("calls") or []))
    info["conflict"] = any(pl.get(k) == "both" for k in ("sleeper", "before", "handler"))
    hj = 0
    end = ending(cv)
    for i, a in enumerate(cv.atts):
        last = i == len(cv.atts) - 1
        retries = a.metrics("retry")
        if not retries:
            if a.of("handler") or a.of("sleep") or a.of("before"):
                if _has_metric_hook(case):
                    out.append(("C16:sleep-without-retry", f"handler/sleep after attempt {a.n} without a granted retry"))
            continue
        delay = retries[0][1][3]
        tp = a.first_true_poll()
        handlers, befores, sleeps = a.of("handler"), a.of("before"), a.of("sleep")
        if tp is not None and not handlers and not sleeps:
            continue  # aborted right after the retry decision
        want_b = expected_where(pl, "before", "")
        want_s = expected_where(pl, "sleeper", "")
        decision = "sleep"
        if has_handler:
            info["consultations"] += len(handlers)
            if len(handlers) != 1:
                out.append(("C16:handler-consultations", f"sleep handler consulted {len(handlers)} times for the retry after attempt {a.n}"))
                continue
            h = handlers[0][1]
            want_h = expected_where(pl, "handler", "")
            if h[1] != want_h:
                out.append(("C16:handler-precedence", f"{h[1]}-level handler consulted, expected the {want_h}-level one"))
            if not _same_float(h[3], delay) or h[2] != a.n:
                out.append(("C16:handler-args", f"handler got attempt={h[2]} delay={h[3]!r}; granted retry has attempt={a.n} delay={delay!r}"))
            decision = h[4]
            hj += 1
        elif handlers:
            out.append(("C16:unexpected-handler", "a sleep handler was consulted although none is configured"))
        if decision == "invalid":
            if cv.final["via"] != "raise" or cv.final["type"] != "ValueError":
                out.append(("C16:invalid-decision-accepted", f"handler returned a non-SleepDecision but the call ended with {cv.final}"))
            continue
        if decision.startswith("str:"):
            # a plain string instead of the enum member: refusing it (ValueError, nothing further happens) is fine,
            # and so is treating it exactly like the member; anything in between is not
            refused = cv.final["via"] == "raise" and cv.final.get("type") == "ValueError" and not befores and not sleeps and last
            if refused:
                continue
            decision = decision[4:]
        if decision == "sleep":
            if want_b != "none":
                if len(befores) != 1 or befores[0][1][1] != want_b or not _same_float(befores[0][1][3], delay):
                    out.append(("C16:before_sleep", f"before_sleep calls {[(b[1][1], b[1][3]) for b in befores]}, expected one at {want_b} level with {delay!r}"))
            elif befores:
                out.append(("C16:before_sleep", "before_sleep invoked although none is configured"))
            if len(sleeps) != 1 or sleeps[0][1][1] != want_s or not _same_float(sleeps[0][1][2], delay):
                out.append(("C16:sleeper", f"sleeper calls {[(s[1][1], s[1][2]) for s in sleeps]}, expected exactly one at {want_s} level with {delay!r}"))
            elif befores and befores[0][0] > sleeps[0][0]:
                out.append(("C16:before-after-sleep", "before_sleep ran after the sleeper"))
            elif handlers and handlers[0][0] > sleeps[0][0]:
                out.append(("C16:handler-after-sleep", "handler consulted after the sleeper"))
            if last:
                D = deadline_ticks(case["cfg"])
                ends = [e for e in a.ev if e[0] == "sleep_end"]
                woke_late = ends and ends[-1][1] - cv.begin > D
                polled = any(e[0] == "poll" and e[2] for e in a.ev)
                if not woke_late and not polled and end["kind"] in ("fail",) and a.n < case["cfg"].get("max_attempts", 3):
                    out.append(("C16:no-attempt-after-sleep", f"slept after attempt {a.n} but no further attempt was made"))
        else:
            if befores or sleeps:
                out.append((f"C16:sleep-on-{decision}", f"handler said {decision} but before_sleep/sleeper ran"))
            if not last:
                out.append((f"C16:attempt-after-{decision}", f"handler said {decision} after attempt {a.n} but attempt {a.n + 1} was made"))
            if decision == "defer":
                r = reported_reason(cv)
                ns = cv.final.get("next_sleep_s")
                if end["kind"] != "fail" or r != "SCHEDULED" or not _same_float(ns, delay):
                    out.append(("C16:defer-outcome", f"handler deferred with delay {delay!r}; run ended {end['kind']}/{r} next_sleep_s={ns!r}"))
            else:
                if end["kind"] != "abort":
                    out.append(("C16:abort-outcome", f"handler aborted; run ended {end['kind']}"))
    return info
