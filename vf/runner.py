"""Runner: sharding over 16 cores, seeds, failure capture/shrink, replay, known findings, evidence.

A property module exposes `PROP = Property(...)` with one or more `Stream`s.  A stream is

    Stream(name, strategy=<hypothesis strategy producing a JSON-able case>,
           check=<case -> Verdict>, quick=<#cases>, thorough=<#cases>)

or an enumeration stream (`enum=<tier -> iterable of cases>`), whose cases are chunked over
the worker pool.  `check` is a pure function of the case (and of the code under test).
"""
from __future__ import annotations

import hashlib
import json
import math
import multiprocessing as mp
import os
import sys
import time
import traceback
from collections import Counter
from dataclasses import dataclass, field
from pathlib import Path
from typing import Any, Callable, Iterable

ROOT = Path(__file__).resolve().parent.parent
NCPU = int(os.environ.get("VERIF_JOBS", "16"))


# ----------------------------------------------------------------------------
# data types
# ----------------------------------------------------------------------------


@dataclass
class Verdict:
    """Result of checking one case."""

    violations: list = field(default_factory=list)  # [(signature, message)]
    nontrivial: bool = False
    classes: list = field(default_factory=list)  # labels for the evidence histogram
    evals: int = 1  # executions of the code under test performed for this case

    def fail(self, sig: str, msg: str) -> None:
        self.violations.append((sig, msg))

    def tag(self, *labels: str) -> None:
        self.classes.extend(labels)


@dataclass
class Stream:
    name: str
    check: Callable[[Any], Verdict]
    strategy: Any = None  # hypothesis strategy (callable tier -> strategy allowed)
    enum: Callable[[str], Iterable[Any]] | None = None
    quick: int = 1000
    thorough: int = 10000
    exhaustive: bool = False  # enumeration covers its finite space completely
    custom: Callable[[str, int, Any], dict] | None = None  # (tier, seed, ctx) -> shard-like result
    shards: int | None = None
    per_shard_min: int = 50  # fewer cases than this per shard are not worth a process
    weight_note: str = ""


@dataclass
class Property:
    id: str
    level: str
    rule: str
    streams: list
    assumptions: list = field(default_factory=list)
    min_nontrivial_fraction: float = 0.0


# ----------------------------------------------------------------------------
# JSON codec for cases (NaN/inf/huge ints are native to Python's json; bytes/tuples tagged)
# ----------------------------------------------------------------------------


def enc(o: Any) -> Any:
    if isinstance(o, (str, int, bool)) or o is None:
        return o
    if isinstance(o, float):
        if o != o:
            return {"$f": "nan"}
        if o in (float("inf"), float("-inf")):
            return {"$f": "inf" if o > 0 else "-inf"}
        return o
    if isinstance(o, bytes):
        return {"$b": o.hex()}
    if type(o).__name__ == "Decimal":
        return {"$dec": str(o)}
    if type(o).__name__ == "Fraction":
        return {"$frac": [o.numerator, o.denominator]}
    if isinstance(o, tuple):
        return {"$t": [enc(x) for x in o]}
    if isinstance(o, list):
        return [enc(x) for x in o]
    if isinstance(o, (set, frozenset)):
        return {"$s": sorted((enc(x) for x in o), key=repr)}
    if isinstance(o, dict):
        if all(isinstance(k, str) and not k.startswith("$") for k in o):
            return {k: enc(v) for k, v in o.items()}
        return {"$d": [[enc(k), enc(v)] for k, v in o.items()]}
    return {"$r": repr(o)}


def dec(o: Any) -> Any:
    if isinstance(o, list):
        return [dec(x) for x in o]
    if isinstance(o, dict):
        if "$b" in o and len(o) == 1:
            return bytes.fromhex(o["$b"])
        if "$f" in o and len(o) == 1:
            return float(o["$f"])
        if "$dec" in o and len(o) == 1:
            from decimal import Decimal

            return Decimal(o["$dec"])
        if "$frac" in o and len(o) == 1:
            from fractions import Fraction

            return Fraction(*o["$frac"])
        if "$t" in o and len(o) == 1:
            return tuple(dec(x) for x in o["$t"])
        if "$s" in o and len(o) == 1:
            return set(dec(x) for x in o["$s"])
        if "$d" in o and len(o) == 1:
            return {dec(k): dec(v) for k, v in o["$d"]}
        return {k: dec(v) for k, v in o.items()}
    return o


def canon(case: Any) -> str:
    old = sys.get_int_max_str_digits()
    sys.set_int_max_str_digits(0)
    try:
        return json.dumps(enc(case), sort_keys=True, default=repr)
    finally:
        sys.set_int_max_str_digits(old)


def digest(case: Any) -> int:
    return int.from_bytes(hashlib.sha1(canon(case).encode("utf-8", "surrogatepass")).digest()[:8], "big")


def brief(case: Any, limit: int = 1500) -> Any:
    """A sample small enough for the evidence file."""
    s = canon(case)
    if len(s) <= limit:
        return json.loads(s)
    return {"truncated": s[:limit], "length": len(s)}


# ----------------------------------------------------------------------------
# known findings
# ----------------------------------------------------------------------------


def load_known(prop_id: str) -> dict:
    """signature -> description, for `finding:` lines of this property."""
    known: dict = {}
    p = ROOT / "KNOWN_FINDINGS.txt"
    if not p.exists():
        return known
    for line in p.read_text().splitlines():
        line = line.strip()
        if not line.startswith("finding:"):
            continue
        parts = line[len("finding:") :].split()
        kv = dict(x.split("=", 1) for x in parts[:2] if "=" in x)
        if kv.get("property") == prop_id and "sig" in kv:
            known[kv["sig"]] = " ".join(parts[2:])
    return known


def sig_known(sig: str, known: dict) -> str | None:
    for k in known:
        if sig == k or (k.endswith("*") and sig.startswith(k[:-1])):
            return k
    return None


# ----------------------------------------------------------------------------
# worker: run one shard of a hypothesis stream
# ----------------------------------------------------------------------------

SHRINK_BUDGET_S = {"quick": 20.0, "thorough": 90.0}
MAX_ROUNDS = 6


class _Found(Exception):
    pass


def _run_given_shard(prop_mod: str, stream_name: str, tier: str, seed: int, n: int, known_sigs: list) -> dict:
    import importlib

    from hypothesis import HealthCheck, Phase, given, settings
    from hypothesis import seed as hseed

    mod = importlib.import_module(prop_mod)
    stream = next(s for s in mod.PROP.streams if s.name == stream_name)
    strategy = stream.strategy(tier) if callable(stream.strategy) and not hasattr(stream.strategy, "example") else stream.strategy
    out = dict(
        evaluations=0,
        cases=0,
        nontrivial=set(),
        classes=Counter(),
        samples=[],
        failures=[],
        excluded=Counter(),
        errors=[],
    )
    excluded = set()
    remaining = n
    rnd = 0
    while remaining > 0 and rnd < MAX_ROUNDS:
        state = {"target": None, "best": None, "t_first": None, "count": 0}

        _state = state

        def body(case):
            _state["count"] += 1
            v = stream.check(case)
            out["evaluations"] += v.evals
            out["cases"] += 1
            for c in v.classes:
                out["classes"][c] += 1
            if v.nontrivial:
                out["nontrivial"].add(digest(case))
                if len(out["samples"]) < 3:
                    out["samples"].append(brief(case))
            fresh = []
            for sig, msg in v.violations:
                k = sig_known(sig, dict.fromkeys(known_sigs))
                if k is not None:
                    out["excluded"]["known:" + k] += 1
                    if not any(f[0] == sig for f in out["failures"]):
                        out["failures"].append((sig, enc(case), msg, True))
                    continue
                if sig in excluded:
                    out["excluded"]["seen:" + sig] += 1
                    continue
                fresh.append((sig, msg))
            if not fresh:
                return
            if _state["target"] is None:
                _state["target"] = fresh[0][0]
                _state["t_first"] = time.perf_counter()
            hit = [f for f in fresh if f[0] == _state["target"]]
            if not hit:
                return
            if time.perf_counter() - _state["t_first"] > SHRINK_BUDGET_S[tier]:
                return  # stop feeding the shrinker; we keep the best case seen
            size = len(canon(case))
            if _state["best"] is None or size <= _state["best"][0]:
                _state["best"] = (size, case, hit[0][1])
            raise _Found(hit[0][0])

        test = hseed(seed * 7919 + rnd)(
            settings(
                max_examples=remaining,
                database=None,
                deadline=None,
                derandomize=False,
                report_multiple_bugs=False,
                phases=[Phase.generate, Phase.shrink],
                suppress_health_check=[HealthCheck.too_slow, HealthCheck.data_too_large, HealthCheck.large_base_example],
                print_blob=False,
            )(given(strategy)(body))
        )
        try:
            test()
        except _Found:
            pass
        except BaseException as x:  # noqa: BLE001
            name = type(x).__name__
            if state["best"] is None or name in ("FailedHealthCheck", "Unsatisfiable"):
                if state["best"] is None:
                    out["errors"].append(f"{name}: {x}\n{traceback.format_exc()[-2000:]}")
                    break
        if state["best"] is None:
            break
        _, case, msg = state["best"]
        out["failures"].append((state["target"], enc(case), msg, False))
        excluded.add(state["target"])
        remaining -= state["count"]
        rnd += 1
    out["nontrivial"] = list(out["nontrivial"])
    return out


def _run_enum_chunk(prop_mod: str, stream_name: str, tier: str, shard: int, nshards: int, known_sigs: list) -> dict:
    import importlib

    mod = importlib.import_module(prop_mod)
    stream = next(s for s in mod.PROP.streams if s.name == stream_name)
    out = dict(
        evaluations=0, cases=0, nontrivial=set(), classes=Counter(), samples=[], failures=[], excluded=Counter(), errors=[]
    )
    seen = set()
    for i, case in enumerate(stream.enum(tier)):
        if i % nshards != shard:
            continue
        try:
            v = stream.check(case)
        except Exception as x:  # noqa: BLE001
            out["errors"].append(f"{type(x).__name__}: {x}\n{traceback.format_exc()[-2000:]}")
            break
        out["evaluations"] += v.evals
        out["cases"] += 1
        for c in v.classes:
            out["classes"][c] += 1
        if v.nontrivial:
            out["nontrivial"].add(digest(case))
            if len(out["samples"]) < 3:
                out["samples"].append(brief(case))
        for sig, msg in v.violations:
            k = sig_known(sig, dict.fromkeys(known_sigs))
            if sig in seen:
                out["excluded"][("known:" if k else "seen:") + sig] += 1
                continue
            seen.add(sig)
            out["failures"].append((sig, enc(case), msg, k is not None))
    out["nontrivial"] = list(out["nontrivial"])
    return out


def _run_custom(prop_mod: str, stream_name: str, tier: str, seed: int, shard: int, nshards: int) -> dict:
    import importlib

    mod = importlib.import_module(prop_mod)
    stream = next(s for s in mod.PROP.streams if s.name == stream_name)
    try:
        r = stream.custom(tier, seed, (shard, nshards))
    except Exception as x:  # noqa: BLE001
        r = dict(errors=[f"{type(x).__name__}: {x}\n{traceback.format_exc()[-3000:]}"])
    base = dict(
        evaluations=0, cases=0, nontrivial=[], classes=Counter(), samples=[], failures=[], excluded=Counter(), errors=[]
    )
    base.update(r)
    base["nontrivial"] = list(base["nontrivial"])
    return base


def _worker(job):
    kind = job[0]
    try:
        if kind == "given":
            return job[2], _run_given_shard(*job[1:])
        if kind == "enum":
            return job[2], _run_enum_chunk(*job[1:])
        if kind == "custom":
            return job[2], _run_custom(*job[1:])
    except BaseException as x:  # noqa: BLE001
        return job[2], dict(
            evaluations=0,
            cases=0,
            nontrivial=[],
            classes=Counter(),
            samples=[],
            failures=[],
            excluded=Counter(),
            errors=[f"{type(x).__name__}: {x}\n{traceback.format_exc()[-3000:]}"],
        )
    raise AssertionError(kind)


# ----------------------------------------------------------------------------
# main entry
# ----------------------------------------------------------------------------


def write_replay(prop_id: str, stream: str, sig: str, case_enc: Any, msg: str) -> Path:
    d = ROOT / "replays" / prop_id / "found"
    d.mkdir(parents=True, exist_ok=True)
    old = sys.get_int_max_str_digits()
    sys.set_int_max_str_digits(0)
    try:
        body = json.dumps({"property": prop_id, "stream": stream, "sig": sig, "message": msg, "case": case_enc}, indent=1, sort_keys=True)
    finally:
        sys.set_int_max_str_digits(old)
    h = hashlib.sha1(body.encode("utf-8", "surrogatepass")).hexdigest()[:12]
    p = d / f"{h}.json"
    p.write_text(body)
    return p


def load_replay(path: Path) -> dict:
    old = sys.get_int_max_str_digits()
    sys.set_int_max_str_digits(0)
    try:
        return json.loads(Path(path).read_text())
    finally:
        sys.set_int_max_str_digits(old)


def run_property(prop_mod: str, tier: str, seed: int, replay: str | None = None, only_stream: str | None = None) -> int:
    import importlib

    t_start = time.perf_counter()
    mod = importlib.import_module(prop_mod)
    prop: Property = mod.PROP
    known = load_known(prop.id)
    streams = {s.name: s for s in prop.streams}

    violations: list = []  # (sig, path, msg)
    known_hits: dict = {}
    errors: list = []
    totals = dict(evaluations=0, cases=0, classes=Counter(), excluded=Counter(), samples=[], per_stream={})
    nontrivial: set = set()
    replayed = 0
    exhaustive_streams = []

    def handle_failure(stream_name, sig, case_enc, msg):
        k = sig_known(sig, known)
        if k is not None:
            known_hits.setdefault(k, (sig, msg))
            return
        if any(v[0] == sig for v in violations):
            return
        p = write_replay(prop.id, stream_name, sig, case_enc, msg)
        violations.append((sig, p, msg))

    # -- explicit replay ------------------------------------------------------
    if replay is not None:
        data = load_replay(Path(replay))
        s = streams[data["stream"]]
        v = s.check(dec(data["case"]))
        for sig, msg in v.violations:
            print(f"replay: sig={sig} {msg}")
            if sig_known(sig, known) is None:
                print(f"VIOLATION property={prop.id} replay={replay}")
                return 1
            print(f"KNOWN-FINDING: property={prop.id} {known[sig_known(sig, known)]}")
        print(f"replay: {len(v.violations)} violation(s); classes={v.classes}")
        return 0

    # -- regression tier: committed replay files ------------------------------
    rdir = ROOT / "replays" / prop.id
    if rdir.is_dir():
        for p in sorted(rdir.glob("*.json")):
            data = load_replay(p)
            s = streams.get(data["stream"])
            if s is None:
                continue
            try:
                v = s.check(dec(data["case"]))
            except Exception as x:  # noqa: BLE001
                errors.append(f"replay {p.name}: {type(x).__name__}: {x}\n{traceback.format_exc()[-1500:]}")
                continue
            replayed += 1
            totals["evaluations"] += v.evals
            for sig, msg in v.violations:
                k = sig_known(sig, known)
                if k is not None:
                    known_hits.setdefault(k, (sig, msg))
                elif not any(vv[0] == sig for vv in violations):
                    violations.append((sig, p, msg))

    # -- generation -----------------------------------------------------------
    jobs = []
    for s in prop.streams:
        if only_stream and s.name != only_stream:
            continue
        n = s.quick if tier == "quick" else s.thorough
        if n <= 0:
            continue
        nsh = s.shards or NCPU
        if s.custom is not None:
            for sh in range(nsh):
                jobs.append(("custom", prop_mod, s.name, tier, seed, sh, nsh))
        elif s.enum is not None:
            if s.exhaustive:
                exhaustive_streams.append(s.name)
            for sh in range(nsh):
                jobs.append(("enum", prop_mod, s.name, tier, sh, nsh, list(known)))
        else:
            nsh = min(nsh, max(1, n // s.per_shard_min))
            per = math.ceil(n / nsh)
            for sh in range(nsh):
                jobs.append(("given", prop_mod, s.name, tier, seed * 1000 + sh, per, list(known)))

    ctx = mp.get_context("fork")
    with ctx.Pool(min(NCPU, max(1, len(jobs)))) as pool:
        for stream_name, r in pool.imap_unordered(_worker, jobs):
            totals["evaluations"] += r["evaluations"]
            totals["cases"] += r["cases"]
            totals["classes"].update(r["classes"])
            totals["excluded"].update(r["excluded"])
            ps = totals["per_stream"].setdefault(stream_name, dict(cases=0, evaluations=0, nontrivial=0))
            ps["cases"] += r["cases"]
            ps["evaluations"] += r["evaluations"]
            ps["nontrivial"] += len(r["nontrivial"])
            for k in ("extra",):
                if k in r:
                    ps.setdefault(k, []).append(r[k])
            nontrivial.update((stream_name, d) if not isinstance(d, (list, tuple)) else tuple(d) for d in r["nontrivial"])
            if len([x for x in totals["samples"] if x.get("stream") == stream_name]) < 2:
                for smp in r["samples"][:1]:
                    totals["samples"].append({"stream": stream_name, "case": smp})
            errors.extend(r["errors"])
            for sig, case_enc, msg, _is_known in r["failures"]:
                handle_failure(stream_name, sig, case_enc, msg)

    wall = time.perf_counter() - t_start

    # -- report ---------------------------------------------------------------
    for k, (sig, msg) in sorted(known_hits.items()):
        print(f"KNOWN-FINDING: property={prop.id} sig={sig} {known[k]}")
    for sig, p, msg in violations:
        print(f"  {sig}: {msg}"[:1200])
        print(f"VIOLATION property={prop.id} replay={p}")
    if errors:
        for e in errors[:5]:
            print("HARNESS-ERROR:", e, file=sys.stderr)

    if not totals["samples"]:
        totals["samples"].append({"note": "no non-trivial case was generated"})
    coverage = dict(
        evaluations=int(totals["evaluations"]),
        distinct_nontrivial=len(nontrivial),
        rule=prop.rule,
        samples=totals["samples"][:8],
        cases=int(totals["cases"]),
        classes=dict(sorted(totals["classes"].items(), key=lambda kv: (-kv[1], kv[0]))[:60]),
        per_stream=totals["per_stream"],
        replayed_regressions=replayed,
        excluded_by_construction=dict(totals["excluded"]),
        known_findings_hit=sorted(known_hits),
    )
    if exhaustive_streams:
        coverage["exhaustive_streams"] = exhaustive_streams
    evidence = dict(
        property_id=prop.id,
        tier=tier,
        seed=int(seed),
        level=prop.level,
        coverage=coverage,
        assumptions=list(prop.assumptions),
        wall_s=round(wall, 2),
        violations=len(violations),
    )
    if not errors:
        problem = write_evidence(prop.id, evidence)
        if problem and not violations:
            errors.append("evidence does not validate: " + problem)
            print("HARNESS-ERROR:", errors[-1], file=sys.stderr)
    print(
        f"{prop.id} tier={tier} seed={seed}: cases={totals['cases']} evaluations={totals['evaluations']} "
        f"distinct_nontrivial={len(nontrivial)} replayed={replayed} violations={len(violations)} "
        f"known={len(known_hits)} errors={len(errors)} wall={wall:.1f}s"
    )
    if violations:
        return 1
    if errors:
        return 2
    return 0


def write_evidence(prop_id: str, evidence: dict) -> str | None:
    d = ROOT / "evidence"
    d.mkdir(exist_ok=True)
    problem = None
    try:
        import jsonschema

        schema = json.loads(Path("/root/.vp/EVIDENCE.schema.json").read_text())
        try:
            jsonschema.validate(json.loads(json.dumps(evidence, default=repr)), schema)
        except jsonschema.ValidationError as x:
            problem = x.message
    except ImportError:
        pass
    except FileNotFoundError:
        pass
    old = sys.get_int_max_str_digits()
    sys.set_int_max_str_digits(0)
    try:
        text = json.dumps(evidence, indent=1, default=repr) + "\n"
        (d / f"{prop_id}.json").write_text(text)
        if evidence.get("tier") == "thorough":
            # keep the deep run's record next to the quick one (evidence/<id>.json is rewritten by every run)
            (d / "thorough").mkdir(exist_ok=True)
            (d / "thorough" / f"{prop_id}.json").write_text(text)
    finally:
        sys.set_int_max_str_digits(old)
    return problem
